import BS.Lemmas.StabShape
import BS.Lemmas.RefScan
/-
  Progress of the L2 decoders: every successful element decode strictly consumes input, and the callbacks a decoder
  makes are paid for by the bytes it consumes. No hypothesis on the input length (L2 has no overflow).

  `Cons m d B P`: the run `d` does not panic; the `m`-weight of its callback sequence is at most `B` whatever happens;
  when it succeeds with `a`, `P a (weight of the callbacks)` holds.
-/
namespace BS.Ext
open BS BS.Spec

/-- weight of a callback sequence -/
def wt (m : Event → Nat) : List Event → Nat
  | [] => 0
  | e :: es => m e + wt m es

@[simp] theorem wt_nil (m : Event → Nat) : wt m [] = 0 := rfl
@[simp] theorem wt_cons (m : Event → Nat) (e : Event) (es : List Event) : wt m (e :: es) = m e + wt m es := rfl
@[simp] theorem wt_append (m : Event → Nat) (a b : List Event) : wt m (a ++ b) = wt m a + wt m b := by
  induction a with
  | nil => simp
  | cons e es ih => simp [ih, Nat.add_assoc]

theorem wt_const (c : Nat) (t : List Event) : wt (fun _ => c) t = c * t.length := by
  induction t with
  | nil => simp
  | cons e es ih => simp only [wt_cons, ih, List.length_cons, Nat.mul_succ]; omega

/-- weight `c` on the events selected by `p`, nothing on the others -/
theorem wt_ind (c : Nat) (p : Event → Bool) (t : List Event) :
    wt (fun e => if p e then c else 0) t = c * t.countP p := by
  induction t with
  | nil => simp
  | cons e es ih =>
    simp only [wt_cons, ih, List.countP_cons]
    cases p e <;> simp [Nat.mul_add, Nat.add_comm]

def isTxInEv : Event → Bool
  | .txIn _ _ => true
  | _ => false
def isTxOutEv : Event → Bool
  | .txOut _ _ => true
  | _ => false
def isElementEv : Event → Bool
  | .witnessElement _ _ => true
  | _ => false
def isWitnessEv : Event → Bool
  | .witness _ => true
  | _ => false
def isWitnessEndEv : Event → Bool
  | .witnessEnd => true
  | _ => false
def isTransactionEv : Event → Bool
  | .transaction _ => true
  | _ => false

structure Cons {α : Type} (m : Event → Nat) (d : D α) (B : Nat) (P : α → Nat → Prop) : Prop where
  nopanic : ∀ q, d.res ≠ .panic q
  ok : ∀ a, d.res = .ok a → P a (wt m d.trace)
  bound : wt m d.trace ≤ B

section
variable {α β : Type} {m : Event → Nat}

theorem Cons.err (e : Error) (B : Nat) (P : α → Nat → Prop) : Cons m (D.lift (.err e) : D α) B P :=
  ⟨fun _ h => (by cases h), fun _ h => (by cases h), Nat.zero_le _⟩

theorem Cons.pure {a : α} {B : Nat} {P : α → Nat → Prop} (h : P a 0) : Cons m (Pure.pure a : D α) B P :=
  ⟨fun _ h' => (by cases h'), fun _ h' => (by cases h'; exact h), Nat.zero_le _⟩

theorem Cons.mono {d : D α} {B B' : Nat} {P Q : α → Nat → Prop} (h : Cons m d B P) (hB : B ≤ B')
    (hPQ : ∀ a t, P a t → Q a t) : Cons m d B' Q :=
  ⟨h.nopanic, fun a ha => hPQ _ _ (h.ok a ha), Nat.le_trans h.bound hB⟩

theorem Cons.bind {d : D α} {f : α → D β} {B : Nat} {P : α → Nat → Prop} {Q : β → Nat → Prop}
    (hd : Cons m d B P)
    (hf : ∀ a t, P a t → ∃ B', t + B' ≤ B ∧ Cons m (f a) B' (fun b t' => Q b (t + t'))) :
    Cons m (d >>= f) B Q := by
  cases hr : d.res with
  | ok a =>
    rw [Stab.D.bind_ok hr]
    obtain ⟨B', hB, hc⟩ := hf a _ (hd.ok a hr)
    refine ⟨hc.nopanic, fun b hb => ?_, ?_⟩
    · simp only [wt_append]; exact hc.ok b hb
    · simp only [wt_append]; have := hc.bound; omega
  | err e =>
    rw [Stab.D.bind_err hr]
    exact ⟨fun _ h => (by cases h), fun _ h => (by cases h), hd.bound⟩
  | panic q => exact (hd.nopanic q hr).elim

/-- sequencing with the callback budget that is left -/
theorem Cons.bind' {d : D α} {f : α → D β} {B0 B : Nat} {P : α → Nat → Prop} {Q : β → Nat → Prop}
    (hd : Cons m d B0 P) (hB : B0 ≤ B)
    (hf : ∀ a t, P a t → Cons m (f a) (B - t) (fun b t' => Q b (t + t'))) :
    Cons m (d >>= f) B Q := by
  cases hr : d.res with
  | ok a =>
    rw [Stab.D.bind_ok hr]
    have hc := hf a _ (hd.ok a hr)
    have hb := hd.bound
    refine ⟨hc.nopanic, fun b hb => ?_, ?_⟩
    · simp only [wt_append]; exact hc.ok b hb
    · simp only [wt_append]; have := hc.bound; omega
  | err e =>
    rw [Stab.D.bind_err hr]
    exact ⟨fun _ h => (by cases h), fun _ h => (by cases h), Nat.le_trans hd.bound hB⟩
  | panic q => exact (hd.nopanic q hr).elim

theorem Cons.lift_bind {r : Res α} {f : α → D β} {B : Nat} {P' : α → Prop} {Q : β → Nat → Prop}
    (h : Stab.PostR r P') (hf : ∀ a, r = .ok a → P' a → Cons m (f a) B Q) : Cons m (D.lift r >>= f) B Q := by
  cases r with
  | ok a => rw [Ref.d_lift_ok_bind]; exact hf a rfl (h.2 a rfl)
  | err e => rw [Ref.d_lift_err_bind]; exact Cons.err _ _ _
  | panic q => exact (h.1 q rfl).elim

theorem Cons.emit_bind (e : Event) {f : Unit → D β} {B B' : Nat} {Q : β → Nat → Prop}
    (hB : m e + B ≤ B') (hf : Cons m (f ()) B (fun b t => Q b (m e + t))) : Cons m (D.emit e >>= f) B' Q := by
  have h : (D.emit e >>= f) = ⟨[e] ++ (f ()).trace, (f ()).res⟩ := Stab.D.bind_ok (m := D.emit e) rfl f
  rw [h]
  refine ⟨hf.nopanic, fun b hb => ?_, ?_⟩
  · simp only [wt_append, wt_cons, wt_nil, Nat.add_zero]; exact hf.ok b hb
  · simp only [wt_append, wt_cons, wt_nil, Nat.add_zero]; have := hf.bound; omega
end

/-! ### the pure decoders: bytes consumed -/

theorem prog_takeN (s : Slice) (n : Nat) : Stab.PostR (takeN s n) (fun p => p.2.len + n = s.len ∧ p.1.len = n) := by
  unfold takeN
  split
  · exact Stab.PostR.err _ _
  · refine Stab.PostR.ok ⟨?_, ?_⟩
    · simp only [Slice.len, List.length_drop] at *; omega
    · simp only [Slice.len, List.length_take] at *; omega

theorem prog_decLE (w : Nat) (s : Slice) : Stab.PostR (decLE w s) (fun p => p.2.len + w = s.len) := by
  rw [Ref.decLE_eq]
  split
  · exact Stab.PostR.err _ _
  · exact Stab.PostR.ok (by simp only [Ref.sdrop_len]; omega)

theorem prog_wideD (base : Nat) (t : Bytes) (w min : Nat) :
    Stab.PostR (Ref.wideD base t w min) (fun p => p.2.len + w = t.length) := by
  unfold Ref.wideD
  rw [Ref.decLE_eq]
  by_cases h : (⟨base + 1, t⟩ : Slice).len < w
  · rw [if_pos h]; exact Stab.PostR.err _ _
  · rw [if_neg h]
    simp only []
    split
    · refine Stab.PostR.ok ?_
      show (Ref.sdrop _ _).len + w = t.length
      rw [Ref.sdrop_len]
      simp only [Slice.len] at *; omega
    · exact Stab.PostR.err _ _

/-- a compact size occupies 1, 3, 5 or 9 bytes -/
def CW (s r : Slice) : Prop :=
  r.len + 1 = s.len ∨ r.len + 3 = s.len ∨ r.len + 5 = s.len ∨ r.len + 9 = s.len

theorem CW.ge {s r : Slice} (h : CW s r) : r.len + 1 ≤ s.len := by unfold CW at h; omega

theorem prog_decCompact (s : Slice) : Stab.PostR (decCompact s) (fun p => CW s p.2) := by
  obtain ⟨base, bs⟩ := s
  cases bs with
  | nil => exact Stab.PostR.err _ _
  | cons x t =>
    rw [Ref.decCompact_cons]
    have hw : ∀ w min, (w = 2 ∨ w = 4 ∨ w = 8) →
        Stab.PostR (Ref.wideD base t w min) (fun p => CW ⟨base, x :: t⟩ p.2) := by
      intro w min hw
      refine (prog_wideD base t w min).mono ?_
      intro p hp
      simp only [CW, Slice.len, List.length_cons] at *
      omega
    split
    · exact hw _ _ (by omega)
    · split
      · exact hw _ _ (by omega)
      · split
        · exact hw _ _ (by omega)
        · exact Stab.PostR.ok (Or.inl rfl)

theorem prog_decScript (s : Slice) : Stab.PostR (decScript s) (fun p => p.2.len + 1 ≤ s.len) := by
  unfold decScript
  refine Stab.PostR.bind (prog_decCompact s) ?_
  rintro ⟨n, r⟩ h1
  refine Stab.PostR.bind (prog_takeN r n) ?_
  rintro ⟨p, rem⟩ ⟨h2, _⟩
  refine Stab.PostR.pure ?_
  have := h1.ge
  simp only at *; omega

theorem prog_decOutPoint (s : Slice) : Stab.PostR (decOutPoint s) (fun p => p.2.len + 36 = s.len) := by
  unfold decOutPoint
  refine Stab.PostR.bind (prog_takeN s 36) ?_
  rintro ⟨p, rem⟩ ⟨h1, _⟩
  exact Stab.PostR.pure h1

theorem prog_decTxIn (s : Slice) : Stab.PostR (decTxIn s) (fun p => p.2.len + 41 ≤ s.len) := by
  unfold decTxIn
  refine Stab.PostR.bind (prog_decOutPoint s) ?_
  rintro ⟨op, r1⟩ h1
  refine Stab.PostR.bind (prog_decScript r1) ?_
  rintro ⟨sc, r2⟩ h2
  refine Stab.PostR.bind (prog_decLE 4 r2) ?_
  rintro ⟨sq, rem⟩ h3
  refine Stab.PostR.pure ?_
  simp only at *; omega

theorem prog_decTxOut (s : Slice) : Stab.PostR (decTxOut s) (fun p => p.2.len + 9 ≤ s.len) := by
  unfold decTxOut
  refine Stab.PostR.bind (prog_decLE 8 s) ?_
  rintro ⟨v, r1⟩ h1
  refine Stab.PostR.bind (prog_decScript r1) ?_
  rintro ⟨sc, rem⟩ h2
  refine Stab.PostR.pure ?_
  simp only at *; omega

/-! ### the loops -/

theorem cons_txInsLoop (m : Event → Nat) (hm : ∀ i x, m (.txIn i x) ≤ 41) (n : Nat) : ∀ (i : Nat) (s : Slice),
    Cons m (decTxInsLoop n i s) s.len (fun r t => r.len + 41 * n ≤ s.len ∧ r.len + t ≤ s.len) := by
  induction n with
  | zero => intro i s; exact Cons.pure ⟨by omega, by omega⟩
  | succ n ih =>
    intro i s
    simp only [decTxInsLoop]
    refine Cons.lift_bind (prog_decTxIn s) ?_
    rintro ⟨x, r⟩ _ h1
    have := hm i x
    simp only at h1
    dsimp only
    refine Cons.emit_bind _ (B := r.len) (by omega) ?_
    exact (ih (i + 1) r).mono (Nat.le_refl _) (fun a t ⟨h2, h3⟩ => ⟨by omega, by omega⟩)

theorem cons_txOutsLoop (m : Event → Nat) (hm : ∀ i x, m (.txOut i x) ≤ 9) (n : Nat) : ∀ (i : Nat) (s : Slice),
    Cons m (decTxOutsLoop n i s) s.len (fun r t => r.len + 9 * n ≤ s.len ∧ r.len + t ≤ s.len) := by
  induction n with
  | zero => intro i s; exact Cons.pure ⟨by omega, by omega⟩
  | succ n ih =>
    intro i s
    simp only [decTxOutsLoop]
    refine Cons.lift_bind (prog_decTxOut s) ?_
    rintro ⟨x, r⟩ _ h1
    have := hm i x
    simp only at h1
    dsimp only
    refine Cons.emit_bind _ (B := r.len) (by omega) ?_
    exact (ih (i + 1) r).mono (Nat.le_refl _) (fun a t ⟨h2, h3⟩ => ⟨by omega, by omega⟩)

theorem cons_witnessLoop (m : Event → Nat) (hm : ∀ i x, m (.witnessElement i x) ≤ 1) (n : Nat) :
    ∀ (i : Nat) (s : Slice),
    Cons m (decWitnessLoop n i s) s.len (fun r t => r.len + n ≤ s.len ∧ r.len + t ≤ s.len) := by
  induction n with
  | zero => intro i s; exact Cons.pure ⟨by omega, by omega⟩
  | succ n ih =>
    intro i s
    simp only [decWitnessLoop]
    refine Cons.lift_bind (prog_decCompact s) ?_
    rintro ⟨len, r⟩ _ h1
    have h1' := h1.ge
    refine Cons.lift_bind (prog_takeN r len) ?_
    rintro ⟨el, r'⟩ _ ⟨h2, _⟩
    have := hm i el
    simp only at h1' h2
    dsimp only
    refine Cons.emit_bind _ (B := r'.len) (by omega) ?_
    exact (ih (i + 1) r').mono (Nat.le_refl _) (fun a t ⟨h3, h4⟩ => ⟨by omega, by omega⟩)

/-- inputs: the count callback may weigh `c0 ≤ 1`, every input callback at most 41 -/
theorem cons_txIns (m : Event → Nat) (c0 : Nat) (hc : c0 ≤ 1) (h0 : ∀ n, m (.txIns n) ≤ c0)
    (hm : ∀ i x, m (.txIn i x) ≤ 41) (s : Slice) :
    Cons m (decTxIns s) s.len
      (fun p t => p.2.len + 1 + 41 * p.1.n ≤ s.len ∧ p.2.len + 1 + t ≤ s.len + c0) := by
  unfold decTxIns
  refine Cons.lift_bind (prog_decCompact s) ?_
  rintro ⟨n, r⟩ _ h1
  have h1' := h1.ge
  have := h0 n
  simp only at h1'
  refine Cons.emit_bind _ (B := r.len) (by omega) ?_
  refine Cons.bind ((cons_txInsLoop m hm n 0 r).mono (Nat.le_refl _) (fun _ _ h => h)) ?_
  rintro rem t ⟨h2, h3⟩
  exact ⟨0, by omega, Cons.pure ⟨by simp only; omega, by simp only; omega⟩⟩

theorem cons_txOuts (m : Event → Nat) (c0 : Nat) (hc : c0 ≤ 1) (h0 : ∀ n, m (.txOuts n) ≤ c0)
    (hm : ∀ i x, m (.txOut i x) ≤ 9) (s : Slice) :
    Cons m (decTxOuts s) s.len
      (fun p t => p.2.len + 1 + 9 * p.1.n ≤ s.len ∧ p.2.len + 1 + t ≤ s.len + c0) := by
  unfold decTxOuts
  refine Cons.lift_bind (prog_decCompact s) ?_
  rintro ⟨n, r⟩ _ h1
  have h1' := h1.ge
  have := h0 n
  simp only at h1'
  refine Cons.emit_bind _ (B := r.len) (by omega) ?_
  refine Cons.bind ((cons_txOutsLoop m hm n 0 r).mono (Nat.le_refl _) (fun _ _ h => h)) ?_
  rintro rem t ⟨h2, h3⟩
  exact ⟨0, by omega, Cons.pure ⟨by simp only; omega, by simp only; omega⟩⟩

/-- one witness: the count callback may weigh `cT ≤ 1`, every element callback at most 1 -/
theorem cons_witness (m : Event → Nat) (cT : Nat) (hc : cT ≤ 1) (hT : ∀ n, m (.witnessTotal n) ≤ cT)
    (hm : ∀ i x, m (.witnessElement i x) ≤ 1) (s : Slice) :
    Cons m (decWitness s) s.len (fun p t => p.2.2.len + 1 ≤ s.len ∧ p.2.2.len + 1 + t ≤ s.len + cT) := by
  unfold decWitness
  refine Cons.lift_bind (prog_decCompact s) ?_
  rintro ⟨n, r⟩ _ h1
  have h1' := h1.ge
  have := hT n
  simp only at h1'
  refine Cons.emit_bind _ (B := r.len) (by omega) ?_
  refine Cons.bind ((cons_witnessLoop m hm n 0 r).mono (Nat.le_refl _) (fun _ _ h => h)) ?_
  rintro rem t ⟨h2, h3⟩
  exact ⟨0, by omega, Cons.pure ⟨by simp only; omega, by simp only; omega⟩⟩

/-- the witnesses of a transaction: per witness the three framing callbacks together may weigh 1 -/
theorem cons_witnessesLoop (m : Event → Nat) (cW cT cE : Nat) (hc : cW + cT + cE ≤ 1)
    (hW : ∀ i, m (.witness i) ≤ cW) (hT : ∀ n, m (.witnessTotal n) ≤ cT) (hE : m .witnessEnd ≤ cE)
    (hm : ∀ i x, m (.witnessElement i x) ≤ 1) (n : Nat) : ∀ (i : Nat) (s : Slice) (ae : Bool),
    Cons m (decWitnessesLoop n i s ae) (s.len + cW) (fun p t => p.1.len + n ≤ s.len ∧ p.1.len + t ≤ s.len) := by
  induction n with
  | zero => intro i s ae; exact Cons.pure ⟨by simp only; omega, by simp only; omega⟩
  | succ n ih =>
    intro i s ae
    simp only [decWitnessesLoop]
    have := hW i
    refine Cons.emit_bind _ (B := s.len + cW - m (.witness i)) (by omega) ?_
    refine Cons.bind ((cons_witness m cT (by omega) hT hm s).mono (by omega) (fun _ _ h => h)) ?_
    rintro ⟨w, em, r⟩ t ⟨h0, h1⟩
    simp only at h0 h1
    refine ⟨r.len + cW + cE, by omega, ?_⟩
    refine Cons.emit_bind _ (B := r.len + cW) (by omega) ?_
    refine (ih (i + 1) r _).mono (Nat.le_refl _) ?_
    rintro ⟨r', ae'⟩ t' ⟨h2, h3⟩
    simp only at h2 h3 ⊢
    exact ⟨by omega, by omega⟩

theorem cons_witnesses (m : Event → Nat) (cW cT cE : Nat) (hc : cW + cT + cE ≤ 1)
    (hW : ∀ i, m (.witness i) ≤ cW) (hT : ∀ n, m (.witnessTotal n) ≤ cT) (hE : m .witnessEnd ≤ cE)
    (hm : ∀ i x, m (.witnessElement i x) ≤ 1) (n : Nat) (s : Slice) :
    Cons m (decWitnesses s n) (s.len + cW) (fun p t => p.2.len + n ≤ s.len ∧ p.2.len + t ≤ s.len) := by
  unfold decWitnesses
  refine Cons.bind (cons_witnessesLoop m cW cT cE hc hW hT hE hm n 0 s true) ?_
  rintro ⟨rem, ae⟩ t ⟨h1, h2⟩
  exact ⟨0, by simp only at h2; omega, Cons.pure ⟨by simpa using h1, by simpa using h2⟩⟩

theorem cons_header (m : Event → Nat) (hm : ∀ h, m (.blockHeader h) ≤ 80) (s : Slice) :
    Cons m (decHeader s) s.len (fun p t => p.2.len + 80 = s.len ∧ p.2.len + t ≤ s.len) := by
  unfold decHeader
  refine Cons.lift_bind (prog_takeN s 80) ?_
  rintro ⟨p, rem⟩ _ ⟨h1, _⟩
  simp only at h1
  simp only []
  have := hm ⟨p, toI32 (leN (p.bytes.take 4)), leN ((p.bytes.drop 68).take 4), leN ((p.bytes.drop 72).take 4),
    leN ((p.bytes.drop 76).take 4)⟩
  refine Cons.emit_bind _ (B := rem.len) (by omega) ?_
  exact Cons.pure ⟨by simp only; omega, by simp only; omega⟩

/-! ### transaction and block: only the `visit_transaction` callback carries weight (at most 10) -/

theorem cons_transaction (m : Event → Nat) (h0 : ∀ e, isTransactionEv e = false → m e = 0)
    (hT : ∀ t, m (.transaction t) ≤ 10) (s : Slice) :
    Cons m (decTransaction s) s.len (fun p t => p.2.len + 10 ≤ s.len ∧ p.2.len + t ≤ s.len) := by
  have zIns : ∀ n, m (.txIns n) ≤ 0 := fun n => Nat.le_of_eq (h0 _ rfl)
  have zOuts : ∀ n, m (.txOuts n) ≤ 0 := fun n => Nat.le_of_eq (h0 _ rfl)
  have zIn : ∀ i x, m (.txIn i x) ≤ 41 := fun i x => by rw [h0 _ rfl]; omega
  have zOut : ∀ i x, m (.txOut i x) ≤ 9 := fun i x => by rw [h0 _ rfl]; omega
  have zW : ∀ i, m (.witness i) ≤ 0 := fun i => Nat.le_of_eq (h0 _ rfl)
  have zT : ∀ n, m (.witnessTotal n) ≤ 0 := fun n => Nat.le_of_eq (h0 _ rfl)
  have zE : m .witnessEnd ≤ 0 := Nat.le_of_eq (h0 _ rfl)
  have zEl : ∀ i x, m (.witnessElement i x) ≤ 1 := fun i x => by rw [h0 _ rfl]; omega
  unfold decTransaction
  refine Cons.lift_bind (prog_decLE 4 s) ?_
  rintro ⟨ver, s4⟩ _ h1
  simp only at h1
  refine Cons.bind' (cons_txIns m 0 (by omega) zIns zIn s4) (by omega) ?_
  rintro ⟨ins, r⟩ t1 ⟨_, h2⟩
  simp only at h2
  dsimp only
  split
  · refine Cons.lift_bind (prog_decLE 1 r) ?_
    rintro ⟨flag, r1⟩ _ h3
    simp only at h3
    dsimp only
    split
    · refine Cons.bind' (cons_txIns m 0 (by omega) zIns zIn r1) (by omega) ?_
      rintro ⟨ins2, r2⟩ t2 ⟨_, h4⟩
      simp only at h4
      refine Cons.bind' (cons_txOuts m 0 (by omega) zOuts zOut r2) (by omega) ?_
      rintro ⟨outs, r3⟩ t3 ⟨_, h5⟩
      simp only at h5
      refine Cons.bind' (cons_witnesses m 0 0 0 (by omega) zW zT zE zEl ins2.n r3) (by omega) ?_
      rintro ⟨wits, r4⟩ t4 ⟨_, h6⟩
      simp only at h6
      dsimp only
      split
      · exact Cons.err _ _ _
      · refine Cons.lift_bind (prog_decLE 4 r4) ?_
        rintro ⟨lock, rem⟩ _ h7
        simp only at h7
        dsimp only
        have := hT ⟨viewOf s rem, some (ins2.slice.len + outs.slice.len)⟩
        refine Cons.emit_bind _ (B := 0) (by omega) ?_
        exact Cons.pure ⟨by simp only; omega, by simp only; omega⟩
    · exact Cons.err _ _ _
  · refine Cons.bind' (cons_txOuts m 0 (by omega) zOuts zOut r) (by omega) ?_
    rintro ⟨outs, r3⟩ t3 ⟨_, h5⟩
    simp only at h5
    refine Cons.lift_bind (prog_decLE 4 r3) ?_
    rintro ⟨lock, rem⟩ _ h7
    simp only at h7
    dsimp only
    have := hT ⟨viewOf s rem, none⟩
    refine Cons.emit_bind _ (B := 0) (by omega) ?_
    exact Cons.pure ⟨by simp only; omega, by simp only; omega⟩

theorem cons_blockLoop (m : Event → Nat) (h0 : ∀ e, isTransactionEv e = false → m e = 0)
    (hT : ∀ t, m (.transaction t) ≤ 10) (n : Nat) : ∀ (s : Slice),
    Cons m (decBlockLoop n s) s.len (fun r t => r.len + 10 * n ≤ s.len ∧ r.len + t ≤ s.len) := by
  induction n with
  | zero => intro s; exact Cons.pure ⟨by omega, by omega⟩
  | succ n ih =>
    intro s
    simp only [decBlockLoop]
    refine Cons.bind' (cons_transaction m h0 hT s) (Nat.le_refl _) ?_
    rintro ⟨tx, r⟩ t ⟨h1, h2⟩
    simp only at h1 h2
    exact (ih r).mono (by omega) (fun a t' ⟨h3, h4⟩ => ⟨by omega, by omega⟩)

theorem cons_block (m : Event → Nat) (h0 : ∀ e, isTransactionEv e = false → m e = 0)
    (hT : ∀ t, m (.transaction t) ≤ 10) (s : Slice) :
    Cons m (decBlock s) s.len (fun p t => p.2.len + 81 + 10 * p.1.totalTxs ≤ s.len ∧ p.2.len + t ≤ s.len) := by
  unfold decBlock
  refine Cons.bind' (cons_header m (fun h => by rw [h0 _ rfl]; omega) s) (Nat.le_refl _) ?_
  rintro ⟨hd, r⟩ t1 ⟨h1, h2⟩
  simp only at h1 h2
  refine Cons.lift_bind (prog_decCompact r) ?_
  rintro ⟨n, r1⟩ _ h3
  have h3' := h3.ge
  simp only at h3'
  have : m (.blockBegin n) = 0 := h0 _ rfl
  dsimp only
  refine Cons.emit_bind _ (B := r1.len) (by omega) ?_
  refine Cons.bind' (cons_blockLoop m h0 hT n r1) (Nat.le_refl _) ?_
  rintro rem t2 ⟨h4, h5⟩
  exact Cons.pure ⟨by simp only; omega, by simp only; omega⟩

/-! ### consequences -/

theorem res_err_of {α : Type} {r : Res α} (hp : ∀ q, r ≠ .panic q) (hok : ∀ a, r ≠ .ok a) : ∃ e, r = .err e := by
  cases r with
  | ok a => exact (hok a rfl).elim
  | err e => exact ⟨e, rfl⟩
  | panic q => exact (hp q rfl).elim

theorem res_err_of_isPanic {α : Type} {r : Res α} (hp : r.isPanic = false) (hok : ∀ a, r ≠ .ok a) :
    ∃ e, r = .err e := by
  cases r with
  | ok a => exact (hok a rfl).elim
  | err e => exact ⟨e, rfl⟩
  | panic q => cases hp

/-- a run that cannot succeed (its success would contradict the byte accounting) ends in an error -/
theorem Cons.fails {α : Type} {m : Event → Nat} {d : D α} {B : Nat} {P : α → Nat → Prop} (h : Cons m d B P)
    (hno : ∀ a t, ¬ P a t) : ∃ e, d.res = .err e :=
  res_err_of h.nopanic (fun a ha => hno _ _ (h.ok a ha))

theorem decTxIns_inv {s : Slice} {o : TxInsV} {r : Slice} (h : (decTxIns s).res = .ok (o, r)) :
    ∃ r0, decCompact s = .ok (o.n, r0) ∧ (decTxInsLoop o.n 0 r0).res = .ok r := by
  unfold decTxIns at h
  obtain ⟨⟨n, r0⟩, h1, h2⟩ := Stab.D.bind_res_ok_inv h
  obtain ⟨_, _, h3⟩ := Stab.D.bind_res_ok_inv h2
  obtain ⟨rem, h4, h5⟩ := Stab.D.bind_res_ok_inv h3
  cases h5
  exact ⟨r0, h1, h4⟩

theorem decTxOuts_inv {s : Slice} {o : TxOutsV} {r : Slice} (h : (decTxOuts s).res = .ok (o, r)) :
    ∃ r0, decCompact s = .ok (o.n, r0) ∧ (decTxOutsLoop o.n 0 r0).res = .ok r := by
  unfold decTxOuts at h
  obtain ⟨⟨n, r0⟩, h1, h2⟩ := Stab.D.bind_res_ok_inv h
  obtain ⟨_, _, h3⟩ := Stab.D.bind_res_ok_inv h2
  obtain ⟨rem, h4, h5⟩ := Stab.D.bind_res_ok_inv h3
  cases h5
  exact ⟨r0, h1, h4⟩

theorem decWitness_inv {s : Slice} {w : WitnessV} {em : Bool} {r : Slice} (h : (decWitness s).res = .ok (w, em, r)) :
    ∃ n r0, decCompact s = .ok (n, r0) ∧ (decWitnessLoop n 0 r0).res = .ok r := by
  unfold decWitness at h
  obtain ⟨⟨n, r0⟩, h1, h2⟩ := Stab.D.bind_res_ok_inv h
  obtain ⟨_, _, h3⟩ := Stab.D.bind_res_ok_inv h2
  obtain ⟨rem, h4, h5⟩ := Stab.D.bind_res_ok_inv h3
  cases h5
  exact ⟨n, r0, h1, h4⟩

theorem decHeader_inv {s : Slice} {hd : HeaderV} {r : Slice} (h : (decHeader s).res = .ok (hd, r)) :
    r = ⟨s.base + 80, s.bytes.drop 80⟩ := by
  unfold decHeader at h
  obtain ⟨⟨p, rem⟩, h1, h2⟩ := Stab.D.bind_res_ok_inv h
  obtain ⟨_, _, h3⟩ := Stab.D.bind_res_ok_inv h2
  cases h3
  have h1' : takeN s 80 = .ok (p, r) := h1
  unfold takeN at h1'
  split at h1'
  · cases h1'
  · cases h1'; rfl

theorem decBlock_inv {s : Slice} {b : BlockV} {r : Slice} (h : (decBlock s).res = .ok (b, r)) :
    ∃ r1, decCompact ⟨s.base + 80, s.bytes.drop 80⟩ = .ok (b.totalTxs, r1) ∧
      (decBlockLoop b.totalTxs r1).res = .ok r := by
  unfold decBlock at h
  obtain ⟨⟨hd, r0⟩, h1, h2⟩ := Stab.D.bind_res_ok_inv h
  obtain ⟨⟨n, r1⟩, h3, h4⟩ := Stab.D.bind_res_ok_inv h2
  obtain ⟨_, _, h5⟩ := Stab.D.bind_res_ok_inv h4
  obtain ⟨rem, h6, h7⟩ := Stab.D.bind_res_ok_inv h5
  cases h7
  rw [← decHeader_inv h1]
  exact ⟨r1, h3, h6⟩

/-- the count `scan_len` reads at offset 0 is the count `decCompact` reads -/
theorem scanLenQ_dec {s : Slice} {n c : Nat} (h : scanLenQ s 0 = .ok (n, c)) : ∃ r0, decCompact s = .ok (n, r0) := by
  rw [Ref.scanLenQ_eq s 0 (by omega)] at h
  obtain ⟨⟨n', r0⟩, h1, h2⟩ := Stab.Res.bind_ok_inv h
  cases h2
  exact ⟨r0, h1⟩

end BS.Ext
