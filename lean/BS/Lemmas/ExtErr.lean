import BS.Lemmas.EncList
import BS.Lemmas.EncErr
/-
  Reading the error classes `Enc.Basic` / `Enc.Clean` off a result that is known to be an error.
-/
namespace BS.Ext
open BS BS.Spec BS.Enc

theorem err_of_basic {α : Type} {r : Res α} {e : Error} (he : r = .err e) (hb : Basic r) :
    e = .moreBytesNeeded ∨ e = .nonMinimalVarInt := by
  subst he
  cases e <;> simp [Basic] at hb ⊢

theorem err_of_clean {α : Type} {r : Res α} {e : Error} (he : r = .err e) (hb : Clean r) :
    e ≠ .visitBreak ∧ ∀ c, e ≠ .other c := by
  subst he
  cases e <;> simp [Clean] at hb ⊢

end BS.Ext
