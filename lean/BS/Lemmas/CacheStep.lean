import BS.Lemmas.CacheInv
/-
  Helper lemmas for the ring-buffer cache, part 3:
  the invariant `InvG`, the exact result of `insertCore` on a state satisfying it (`insertCore_eq`),
  and preservation of the invariant.
-/
set_option linter.unusedSectionVars false
namespace BS
namespace CacheProof
open Cache

variable {κ : Type} [DecidableEq κ]

/-! ### the buffer copy -/

theorem getElem?_copy (buf v : Bytes) (fp j : Nat) (hfit : fp + v.length ≤ buf.length) :
    (buf.take fp ++ v ++ buf.drop (fp + v.length))[j]? =
      if j < fp then buf[j]? else if j < fp + v.length then v[j - fp]? else buf[j]? := by
  have h1 : (buf.take fp).length = fp := by simp; omega
  simp only [List.getElem?_append, List.length_append, h1, List.getElem?_take, List.getElem?_drop]
  split
  · split
    · rfl
    · rfl
  · rename_i h
    have : ¬ j < fp := by omega
    simp only [this, if_false]
    congr 1
    omega

/-- bytes outside the written range are untouched -/
theorem copy_preserve (buf v : Bytes) (fp b l : Nat) (hfit : fp + v.length ≤ buf.length)
    (h : b + l ≤ fp ∨ fp + v.length ≤ b) :
    ((buf.take fp ++ v ++ buf.drop (fp + v.length)).drop b).take l = (buf.drop b).take l := by
  apply List.ext_getElem?
  intro i
  simp only [List.getElem?_take, List.getElem?_drop, getElem?_copy buf v fp _ hfit]
  split
  · rcases h with h | h
    · have : b + i < fp := by omega
      simp [this]
    · have h1 : ¬ b + i < fp := by omega
      have h2 : ¬ b + i < fp + v.length := by omega
      simp [h1, h2]
  · rfl

/-- the written range holds the value -/
theorem copy_new (buf v : Bytes) (fp : Nat) (hfit : fp + v.length ≤ buf.length) :
    ((buf.take fp ++ v ++ buf.drop (fp + v.length)).drop fp).take v.length = v := by
  have h1 : (buf.take fp).length = fp := by simp; omega
  rw [List.append_assoc, List.drop_append_of_le_length (by omega)]
  simp [List.drop_eq_nil_of_le, h1]

theorem copy_length (buf v : Bytes) (fp : Nat) (hfit : fp + v.length ≤ buf.length) :
    (buf.take fp ++ v ++ buf.drop (fp + v.length)).length = buf.length := by
  simp; omega

/-! ### the invariant -/

/-- the concrete state `c` represents the ghost entries `G` (oldest first) -/
structure InvG (c : Cache κ) (G : List (Ent κ)) : Prop where
  ins : c.insertions = G.map Ent.key
  idx : c.indexes = (G.map Ent.kr).reverse
  nodup : (G.map Ent.key).Nodup
  ent : ∀ g ∈ G, g.rng.end_ = g.rng.begin_ + g.val.length ∧ g.rng.end_ ≤ c.cap ∧
          (c.buffer.drop g.rng.begin_).take g.val.length = g.val
  lay : ∃ old new os oe, G = old ++ new ∧ Lay c.fp c.cap c.full old new os oe

theorem InvG.fp_le {c : Cache κ} {G : List (Ent κ)} (h : InvG c G) : c.fp ≤ c.cap := by
  obtain ⟨old, new, os, oe, _, _, h1, h2, h3, _⟩ := h.lay
  have := chain_le h2; omega

theorem invG_new (cap : Nat) : InvG (Cache.new cap : Cache κ) [] := by
  refine ⟨rfl, rfl, List.nodup_nil, by simp, [], [], 0, 0, rfl, rfl, Nat.le_refl _, rfl, Nat.zero_le _, by simp⟩

/-- `lookup` on a state satisfying the invariant -/
theorem InvG.lookup_of_mem {c : Cache κ} {G : List (Ent κ)} (h : InvG c G) {g : Ent κ} (hg : g ∈ G) :
    lookup g.key c.indexes = some g.rng := by
  rw [h.idx]
  apply lookup_of_mem_nodup
  · rw [List.map_reverse, map_kr_fst]; exact (List.reverse_perm _).nodup_iff.2 h.nodup
  · simp only [List.mem_reverse]; exact List.mem_map.2 ⟨g, hg, rfl⟩

theorem InvG.lookup_none {c : Cache κ} {G : List (Ent κ)} (h : InvG c G) {k : κ} (hk : k ∉ G.map Ent.key) :
    lookup k c.indexes = none := by
  rw [h.idx]
  apply lookup_eq_none_of_not_mem
  rw [List.map_reverse, map_kr_fst]; simpa using hk

theorem InvG.lookup_isSome {c : Cache κ} {G : List (Ent κ)} (h : InvG c G) (k : κ) :
    (lookup k c.indexes).isSome ↔ k ∈ G.map Ent.key := by
  rw [h.idx, lookup_isSome_iff, List.map_reverse, map_kr_fst, List.mem_reverse]

/-- `remove_range` on a represented state: never panics and drops exactly `evictN` oldest entries -/
theorem removeRange_eq {c : Cache κ} {G : List (Ent κ)} (hins : c.insertions = G.map Ent.key)
    (hidx : c.indexes = (G.map Ent.kr).reverse) (hnd : (G.map Ent.key).Nodup) (r : Range) :
    removeRange c r = .ok ({ c with indexes := ((G.drop (evictN r (G.map Ent.rng) 0)).map Ent.kr).reverse,
                                    insertions := (G.drop (evictN r (G.map Ent.rng) 0)).map Ent.key },
                           evictN r (G.map Ent.rng) 0) := by
  have h := removeLoop_eq r (G.length + 1) (G.map Ent.kr) 0 (by rw [map_kr_fst]; exact hnd) (by simp)
  simp only [map_kr_fst, map_kr_snd, Nat.zero_add, ← List.map_drop] at h
  unfold removeRange
  rw [hins, hidx, List.length_map, h]

/-! ### `insertCore` restated as two phases -/

/-- the part of `insertCore` after the wrap decision -/
def writePhase (k : κ) (v : Bytes) (c : Cache κ) (removed : Nat) : Res (Cache κ × Nat) :=
  (addU c.fp v.length).bind fun end_ =>
  (removeRange c (Range.fromBeginLen c.fp v.length)).bind fun p =>
  (addU removed p.2).bind fun removed' =>
  (copyIn p.1.buffer c.fp end_ v).bind fun buf =>
  .ok (⟨buf, end_, (k, Range.fromBeginLen c.fp v.length) :: p.1.indexes, p.1.insertions ++ [k], p.1.full⟩, removed')

/-- the tail eviction of the wrap branch -/
def wrapPhase (c : Cache κ) : Res (Cache κ × Nat) :=
  match Range.fromBeginEnd c.fp c.cap with
  | some rg => removeRange c rg
  | none => .ok (c, 0)

theorem insertCore_def (c : Cache κ) (k : κ) (v : Bytes) :
    insertCore c k v = (addU v.length c.fp).bind fun sum =>
      if sum > c.cap then
        (wrapPhase c).bind fun p => writePhase k v ⟨p.1.buffer, 0, p.1.indexes, p.1.insertions, true⟩ p.2
      else writePhase k v c 0 := by
  unfold insertCore wrapPhase writePhase
  cases addU v.length c.fp with
  | ok s =>
    simp only [Res.bind_ok, Res.bind]
    split
    · cases Range.fromBeginEnd c.fp c.cap with
      | some rg =>
        simp only []
        cases removeRange c rg with
        | ok p => rfl
        | err e => rfl
        | panic p => rfl
      | none => rfl
    · rfl
  | err e => rfl
  | panic p => rfl

theorem bind_ok' {α β} (a : α) (f : α → Res β) : (Res.ok a).bind f = f a := rfl
theorem bind_panic' {α β} (p : Panic) (f : α → Res β) : (Res.panic p : Res α).bind f = .panic p := rfl

theorem copyIn_ok (buf : Bytes) (b : Nat) (v : Bytes) (h : b + v.length ≤ buf.length) :
    copyIn buf b (b + v.length) v = .ok (buf.take b ++ v ++ buf.drop (b + v.length)) := by
  unfold copyIn
  rw [if_pos ⟨by omega, h, by omega⟩]

theorem addU_eq (a b : Nat) : addU a b = if a + b < USIZE then .ok (a + b) else .panic .overflow := rfl

/-- the number of entries the write phase evicts -/
def writeN (c : Cache κ) (G : List (Ent κ)) (v : Bytes) : Nat :=
  evictN ⟨c.fp, c.fp + v.length⟩ (G.map Ent.rng) 0

/-- the state after the write phase -/
def writeSt (c : Cache κ) (G : List (Ent κ)) (k : κ) (v : Bytes) : Cache κ :=
  ⟨c.buffer.take c.fp ++ v ++ c.buffer.drop (c.fp + v.length), c.fp + v.length,
   (k, ⟨c.fp, c.fp + v.length⟩) :: ((G.drop (writeN c G v)).map Ent.kr).reverse,
   (G.drop (writeN c G v)).map Ent.key ++ [k], c.full⟩

/-- the state after the wrap phase -/
def wrapSt (c : Cache κ) (G : List (Ent κ)) : Cache κ :=
  ⟨c.buffer, 0, ((G.drop (wrapN c.fp c.cap (G.map Ent.rng))).map Ent.kr).reverse,
   (G.drop (wrapN c.fp c.cap (G.map Ent.rng))).map Ent.key, true⟩

theorem writePhase_eq {c : Cache κ} {G : List (Ent κ)} (hins : c.insertions = G.map Ent.key)
    (hidx : c.indexes = (G.map Ent.kr).reverse) (hnd : (G.map Ent.key).Nodup) (k : κ) (v : Bytes)
    (removed : Nat) (hfit : c.fp + v.length ≤ c.cap) :
    writePhase k v c removed =
      if c.fp + v.length < USIZE then
        if removed + writeN c G v < USIZE then .ok (writeSt c G k v, removed + writeN c G v)
        else .panic .overflow
      else .panic .overflow := by
  unfold writePhase
  rw [addU_eq]
  by_cases h1 : c.fp + v.length < USIZE
  · simp only [h1, if_true, bind_ok', Range.fromBeginLen, removeRange_eq hins hidx hnd, addU_eq, writeN, writeSt]
    by_cases h2 : removed + evictN ⟨c.fp, c.fp + v.length⟩ (G.map Ent.rng) 0 < USIZE
    · simp only [h2, if_true, bind_ok', copyIn_ok _ _ _ hfit]
    · simp only [h2, if_false, bind_panic']
  · simp only [h1, if_false, bind_panic']

theorem wrapPhase_eq {c : Cache κ} {G : List (Ent κ)} (hins : c.insertions = G.map Ent.key)
    (hidx : c.indexes = (G.map Ent.kr).reverse) (hnd : (G.map Ent.key).Nodup) :
    wrapPhase c = .ok (⟨c.buffer, c.fp, ((G.drop (wrapN c.fp c.cap (G.map Ent.rng))).map Ent.kr).reverse,
                        (G.drop (wrapN c.fp c.cap (G.map Ent.rng))).map Ent.key, c.full⟩,
                       wrapN c.fp c.cap (G.map Ent.rng)) := by
  unfold wrapPhase Range.fromBeginEnd wrapN
  by_cases h : c.fp < c.cap
  · have h' : c.cap > c.fp := h
    simp only [h', if_true, removeRange_eq hins hidx hnd]
  · have h' : ¬ c.cap > c.fp := h
    simp only [h', if_false, List.drop_zero, ← hins, ← hidx]

/-- the result of an accepted insert, in terms of the ghost entries -/
def insertSpec (c : Cache κ) (G : List (Ent κ)) (k : κ) (v : Bytes) : Cache κ × Nat :=
  if v.length + c.fp > c.cap then
    (writeSt (wrapSt c G) (G.drop (wrapN c.fp c.cap (G.map Ent.rng))) k v,
     wrapN c.fp c.cap (G.map Ent.rng) + writeN (wrapSt c G) (G.drop (wrapN c.fp c.cap (G.map Ent.rng))) v)
  else (writeSt c G k v, writeN c G v)

theorem writeN_le (c : Cache κ) (G : List (Ent κ)) (v : Bytes) : writeN c G v ≤ G.length := by
  simpa [writeN] using evictN_le ⟨c.fp, c.fp + v.length⟩ (G.map Ent.rng)

theorem wrapN_le (fp cap : Nat) (rs : List Range) : wrapN fp cap rs ≤ rs.length := by
  unfold wrapN; split
  · exact evictN_le _ _
  · omega

theorem insertSpec_le (c : Cache κ) (G : List (Ent κ)) (k : κ) (v : Bytes) :
    (insertSpec c G k v).2 ≤ G.length := by
  unfold insertSpec
  split
  · have h1 := wrapN_le c.fp c.cap (G.map Ent.rng)
    have h2 := writeN_le (wrapSt c G) (G.drop (wrapN c.fp c.cap (G.map Ent.rng))) v
    simp only [List.length_map, List.length_drop] at h1 h2 ⊢
    omega
  · exact writeN_le c G v

/-- `insertCore` on a state satisfying the invariant: either an arithmetic overflow (impossible for
    `2 * cap < 2^64` and fewer than `2^64` entries), or exactly `insertSpec` -/
theorem insertCore_cases {c : Cache κ} {G : List (Ent κ)} (h : InvG c G) (k : κ) (v : Bytes)
    (hv : v.length ≤ c.cap) :
    (insertCore c k v = .panic .overflow ∧ (USIZE ≤ 2 * c.cap ∨ USIZE ≤ G.length)) ∨
    insertCore c k v = .ok (insertSpec c G k v) := by
  have hfp := h.fp_le
  have hle := insertSpec_le c G k v
  rw [insertCore_def, addU_eq]
  unfold insertSpec at hle ⊢
  by_cases h1 : v.length + c.fp < USIZE
  · simp only [h1, if_true, bind_ok']
    by_cases hw : v.length + c.fp > c.cap
    · simp only [hw, if_true] at hle ⊢
      simp only [wrapPhase_eq h.ins h.idx h.nodup, bind_ok']
      have hnd : ((G.drop (wrapN c.fp c.cap (G.map Ent.rng))).map Ent.key).Nodup := by
        rw [List.map_drop]; exact List.Sublist.nodup (List.drop_sublist _ _) h.nodup
      rw [writePhase_eq (G := G.drop (wrapN c.fp c.cap (G.map Ent.rng))) rfl rfl hnd k v _
        (by show 0 + v.length ≤ c.buffer.length; have : c.cap = c.buffer.length := rfl; omega)]
      have e0 : (0 : Nat) + v.length = v.length := Nat.zero_add _
      simp only [e0]
      by_cases h2 : v.length < USIZE
      · simp only [h2, if_true]
        split
        · right; rfl
        · rename_i h3
          left; refine ⟨rfl, Or.inr ?_⟩
          have : writeN (⟨c.buffer, 0, ((G.drop (wrapN c.fp c.cap (G.map Ent.rng))).map Ent.kr).reverse,
            (G.drop (wrapN c.fp c.cap (G.map Ent.rng))).map Ent.key, true⟩ : Cache κ) =
            writeN (wrapSt c G) := rfl
          rw [this] at h3
          omega
      · simp only [h2, if_false]
        left; exact ⟨by first | rfl | trivial, Or.inl (by omega)⟩
    · simp only [hw, if_false] at hle ⊢
      rw [writePhase_eq h.ins h.idx h.nodup k v 0 (by omega)]
      by_cases h2 : c.fp + v.length < USIZE
      · simp only [h2, if_true, Nat.zero_add]
        split
        · right; rfl
        · left; exact ⟨rfl, Or.inr (by omega)⟩
      · omega
  · left
    simp only [h1, if_false, bind_panic', true_and]
    omega

theorem chain_single (fp len : Nat) : Chain fp [⟨fp, fp + len⟩] (fp + len) := by
  by_cases h : len = 0
  · subst h; exact Or.inl ⟨rfl, rfl⟩
  · exact Or.inr ⟨by show fp < fp + len; omega, rfl, rfl⟩

theorem chain_snoc {s fp : Nat} {rs : List Range} (h : Chain s rs fp) (len : Nat) :
    Chain s (rs ++ [⟨fp, fp + len⟩]) (fp + len) :=
  chain_append.2 ⟨fp, h, chain_single fp len⟩

theorem wrapSt_cap (c : Cache κ) (G : List (Ent κ)) : (wrapSt c G).cap = c.cap := rfl

theorem invG_wrapSt {c : Cache κ} {G : List (Ent κ)} (h : InvG c G) :
    InvG (wrapSt c G) (G.drop (wrapN c.fp c.cap (G.map Ent.rng))) := by
  obtain ⟨old, new, os, oe, hG, hlay⟩ := h.lay
  obtain ⟨e1, hle, _, _, hl⟩ := lay_wrap hlay
  refine ⟨rfl, rfl, ?_, ?_, ?_⟩
  · rw [List.map_drop]; exact List.Sublist.nodup (List.drop_sublist _ _) h.nodup
  · intro g hg
    exact h.ent g (List.mem_of_mem_drop hg)
  · refine ⟨old.drop (wrapN c.fp c.cap (old.map Ent.rng)) ++ new, [], 0, c.fp, ?_, hl⟩
    rw [hG, e1, List.drop_append_of_le_length hle, List.append_nil]

theorem writeSt_cap (c : Cache κ) (G : List (Ent κ)) (k : κ) (v : Bytes) (hfit : c.fp + v.length ≤ c.cap) :
    (writeSt c G k v).cap = c.cap := copy_length _ _ _ hfit

theorem invG_writeSt {c : Cache κ} {G : List (Ent κ)} (h : InvG c G) (k : κ) (v : Bytes)
    (hfit : c.fp + v.length ≤ c.cap) (hk : k ∉ G.map Ent.key) :
    InvG (writeSt c G k v) (G.drop (writeN c G v) ++ [⟨k, ⟨c.fp, c.fp + v.length⟩, v⟩]) := by
  obtain ⟨old, new, os, oe, hG, hlay⟩ := h.lay
  obtain ⟨e1, hle, _, os', oe', hl, hos', _⟩ := lay_evict_write (len := v.length) hlay hfit
  have hn : writeN c G v = evictN ⟨c.fp, c.fp + v.length⟩ (old.map Ent.rng) 0 := by
    rw [writeN, hG, e1]
  have hdrop : G.drop (writeN c G v) = old.drop (writeN c G v) ++ new := by
    rw [hG, List.drop_append_of_le_length (by rw [← hG, hn]; exact hle)]
  have hcap := writeSt_cap c G k v hfit
  refine ⟨?_, ?_, ?_, ?_, ?_⟩
  · simp [writeSt]
  · simp [writeSt, Ent.kr]
  · rw [List.map_append, List.nodup_append]
    refine ⟨?_, by simp, ?_⟩
    · rw [List.map_drop]; exact List.Sublist.nodup (List.drop_sublist _ _) h.nodup
    · intro a ha b hb
      simp only [List.map_cons, List.map_nil, List.mem_singleton] at hb
      subst hb
      intro e; subst e
      rw [List.map_drop] at ha
      exact hk (List.mem_of_mem_drop ha)
  · intro g hg
    rw [hcap]
    rcases List.mem_append.1 hg with hg | hg
    · have hgG : g ∈ G := List.mem_of_mem_drop hg
      obtain ⟨h1, h2, h3⟩ := h.ent g hgG
      refine ⟨h1, h2, ?_⟩
      show ((c.buffer.take c.fp ++ v ++ c.buffer.drop (c.fp + v.length)).drop g.rng.begin_).take g.val.length = g.val
      by_cases hz : g.val.length = 0
      · rw [hz, List.take_zero]; exact (List.eq_nil_of_length_eq_zero hz).symm
      · have hne : g.rng.begin_ ≠ g.rng.end_ := by omega
        rw [copy_preserve _ _ _ _ _ hfit, h3]
        rw [hdrop] at hg
        rcases List.mem_append.1 hg with hg | hg
        · right
          rw [hn] at hg
          have := chain_mem hl.2.2.1 g.rng (List.mem_map_of_mem hg) hne
          omega
        · left
          have := chain_mem hl.1 g.rng (List.mem_map_of_mem hg) hne
          omega
    · simp only [List.mem_singleton] at hg
      subst hg
      exact ⟨rfl, hfit, copy_new _ _ _ hfit⟩
  · refine ⟨old.drop (writeN c G v), new ++ [⟨k, ⟨c.fp, c.fp + v.length⟩, v⟩], os', oe', ?_, ?_⟩
    · rw [hdrop, List.append_assoc]
    · rw [hcap]
      obtain ⟨l1, l2, l3, l4, l5⟩ := hl
      refine ⟨?_, hos', by rw [hn]; exact l3, l4, by rw [hn]; exact l5⟩
      rw [List.map_append]
      exact chain_snoc l1 v.length

/-- the ghost entry of an accepted insert -/
def insertEnt (c : Cache κ) (k : κ) (v : Bytes) : Ent κ :=
  if v.length + c.fp > c.cap then ⟨k, ⟨0, 0 + v.length⟩, v⟩ else ⟨k, ⟨c.fp, c.fp + v.length⟩, v⟩

theorem insertEnt_key (c : Cache κ) (k : κ) (v : Bytes) : (insertEnt c k v).key = k := by
  unfold insertEnt; split <;> rfl
theorem insertEnt_val (c : Cache κ) (k : κ) (v : Bytes) : (insertEnt c k v).val = v := by
  unfold insertEnt; split <;> rfl

/-- the invariant is preserved by an accepted insert -/
theorem invG_insertSpec {c : Cache κ} {G : List (Ent κ)} (h : InvG c G) (k : κ) (v : Bytes)
    (hv : v.length ≤ c.cap) (hk : k ∉ G.map Ent.key) :
    InvG (insertSpec c G k v).1 (G.drop (insertSpec c G k v).2 ++ [insertEnt c k v]) := by
  unfold insertSpec insertEnt
  by_cases hw : v.length + c.fp > c.cap
  · simp only [hw, if_true]
    rw [← List.drop_drop]
    apply invG_writeSt (invG_wrapSt h) k v
    · show 0 + v.length ≤ c.cap; omega
    · intro hm; rw [List.map_drop] at hm; exact hk (List.mem_of_mem_drop hm)
  · simp only [hw, if_false]
    exact invG_writeSt h k v (by omega) hk

theorem insertSpec_cap {c : Cache κ} {G : List (Ent κ)} (h : InvG c G) (k : κ) (v : Bytes)
    (hv : v.length ≤ c.cap) : (insertSpec c G k v).1.cap = c.cap := by
  have := h.fp_le
  unfold insertSpec
  split
  · rw [writeSt_cap _ _ _ _ (by show 0 + v.length ≤ c.cap; omega)]; rfl
  · rw [writeSt_cap _ _ _ _ (by omega)]

/-- an insert that does not wrap: flag unchanged, free pointer advanced, and no eviction before the first wrap -/
theorem insertSpec_nowrap {c : Cache κ} {G : List (Ent κ)} (h : InvG c G) (k : κ) (v : Bytes)
    (hw : ¬ v.length + c.fp > c.cap) :
    (insertSpec c G k v).1.full = c.full ∧ (insertSpec c G k v).1.fp = c.fp + v.length ∧
    (c.full = false → (insertSpec c G k v).2 = 0) := by
  unfold insertSpec
  simp only [hw, if_false]
  refine ⟨rfl, rfl, ?_⟩
  intro hf
  obtain ⟨old, new, os, oe, hG, hlay⟩ := h.lay
  obtain ⟨e1, _, hz, _⟩ := lay_evict_write (len := v.length) hlay (by omega)
  rw [writeN, hG, e1]; exact hz hf

/-- an insert that wraps: sets the flag, restarts at offset 0, and always evicts -/
theorem insertSpec_wrap {c : Cache κ} {G : List (Ent κ)} (h : InvG c G) (k : κ) (v : Bytes)
    (hv : v.length ≤ c.cap) (hw : v.length + c.fp > c.cap) :
    (insertSpec c G k v).1.full = true ∧ (insertSpec c G k v).1.fp = v.length ∧
    0 < (insertSpec c G k v).2 := by
  have hfp := h.fp_le
  unfold insertSpec
  simp only [hw, if_true]
  refine ⟨rfl, Nat.zero_add _, ?_⟩
  obtain ⟨old, new, os, oe, hG, hlay⟩ := h.lay
  obtain ⟨e1, hle, _, _, hl⟩ := lay_wrap hlay
  have hch : Chain 0 ((G.drop (wrapN c.fp c.cap (G.map Ent.rng))).map Ent.rng) c.fp := by
    rw [hG, e1, List.drop_append_of_le_length hle]; exact hl.2.2.1
  have hsc := scanSpec_chain_zero (len := v.length) (by omega) _ c.fp 0 hch (by omega)
  have hne : writeN (wrapSt c G) (G.drop (wrapN c.fp c.cap (G.map Ent.rng))) v ≠ 0 := by
    intro h0
    apply hsc
    have : (wrapSt c G).fp = 0 := rfl
    rw [writeN, this, Nat.zero_add] at h0
    exact (evictN_eq_zero_iff _ _ _).1 h0
  omega

end CacheProof
end BS
