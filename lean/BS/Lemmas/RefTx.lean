import BS.Lemmas.RefWitness
/-
  Refinement L1 ⊑ L2, part 7: block header, transaction, block.
-/
namespace BS.Ref
open BS BS.Spec VM

theorem take_drop_take (l : Bytes) (a w m : Nat) (h : a + w ≤ m) : ((l.take m).drop a).take w = (l.drop a).take w := by
  rw [List.drop_take, List.take_take, Nat.min_eq_left (by omega)]

theorem read_stake (s : Slice) (a w : Nat) (h : a + w ≤ s.len) :
    Num.read w (stake (sdrop s a) w) = .ok (leN ((s.bytes.drop a).take w)) := by
  rw [read_eq, if_neg (by rw [stake_len (by simp; omega)]; omega)]
  simp [stake, sdrop, List.take_take]

/-! ### block header -/

theorem sim_header {σ} (s : Slice) : Sim (BlockHeader.visit s : VM σ _) (decHeader s) := by
  unfold BlockHeader.visit decHeader
  by_cases h : s.len < 80
  · rw [if_pos h, takeN_short h]; exact sim_lift _
  · rw [if_neg h, takeN_ok (by omega)]
    have h80 : 80 ≤ s.len := by omega
    have r1 := read_stake s 0 4 (by omega)
    have r2 := read_stake s 68 4 (by omega)
    have r3 := read_stake s 72 4 (by omega)
    have r4 := read_stake s 76 4 (by omega)
    simp only [range_ok (show 0 ≤ 4 ∧ 4 ≤ s.len by omega), range_ok (show 68 ≤ 72 ∧ 72 ≤ s.len by omega),
      range_ok (show 72 ≤ 76 ∧ 76 ≤ s.len by omega), range_ok (show 76 ≤ 80 ∧ 80 ≤ s.len by omega),
      Res.bind_ok, Num.readI32, Nat.reduceSub, r1, r2, r3, r4, vm_lift_ok_bind, d_lift_ok_bind, to_ok h80, from_ok h80,
      stake_bytes, take_drop_take _ 68 4 80 (by omega), take_drop_take _ 72 4 80 (by omega),
      take_drop_take _ 76 4 80 (by omega), List.take_take, List.drop_zero, show min 4 80 = 4 from rfl]
    exact sim_emitB_bind rfl (sim_pure _)

/-- the header visit needs no bound on the input length -/
theorem refine_header {σ} (s : Slice) (v : Visitor σ) (st : σ) :
    BlockHeader.visit s v st = (decHeader s).run v st := sim_header s v st

theorem header_out (s : Slice) :
    Out s 0 (decHeader s) 0 (fun a k t => k = 80 ∧ a.2 = sdrop s 80 ∧ a.1.slice = stake s 80 ∧ t = 1) := by
  unfold decHeader
  by_cases h : s.len < 80
  · rw [takeN_short h]; exact out_lift_err _ _ _ decErr_more _ _
  · rw [takeN_ok (by omega), d_lift_ok_bind]
    exact .inr ⟨_, 80, by omega, by omega, rfl, rfl, rfl, rfl, rfl⟩

/-! ### transaction -/

/-- facts about a decoded transaction -/
def TxOutP (s : Slice) (a : TxV × Slice) (k t : Nat) : Prop :=
  a.2 = sdrop s k ∧ a.1.slice = stake s k ∧ 10 ≤ k ∧ t ≤ 3 * k ∧ (∀ len, a.1.ioLen = some len → 0 < len ∧ len + 10 ≤ k)

theorem tx_out (s : Slice) (hs : s.len < 2 ^ 62) : Out s 0 (decTransaction s) 4 (TxOutP s) := by
  unfold decTransaction
  have h0 := out_decLE s 0 (Nat.zero_le _) 4 4
  rw [sdrop_zero] at h0
  refine out_bind (F' := 4) h0 (fun a k t _ _ ⟨_, _, _⟩ => by omega) ?_
  rintro ⟨ver, s4⟩ k0 t0 _ hk0 _ ⟨rfl, ha, rfl⟩
  cases ha
  rw [Nat.zero_add] at hk0 ⊢
  refine out_bind (F' := 4) ((out_shift hk0 (txins_out (sdrop s 4) (by simp; omega))).mono (Nat.zero_le 4)
    (fun _ _ _ _ _ h => h)) (fun a k t _ _ ⟨_, _, _, _, _, _, _⟩ => by omega) ?_
  rintro ⟨ins, r⟩ k1 t1 hk1a hk1 _ ⟨_, hr, hsl, hk1b, _, ht1, hz⟩
  simp only [sdrop_sdrop] at hr
  rw [Nat.add_sub_cancel' hk1a] at hr
  subst hr
  simp only
  by_cases hn : ins.n = 0
  · rw [if_pos hn]
    have hk1e : k1 = 5 := by have := hz hn; omega
    subst hk1e
    refine out_bind (F' := 4) (out_decLE s 5 hk1 1 4) (fun a k t _ _ ⟨_, _, _⟩ => by omega) ?_
    rintro ⟨flag, r1⟩ k2 t2 _ hk2 _ ⟨rfl, ha, rfl⟩
    have hr1 : r1 = sdrop s (5 + 1) := (Prod.mk.inj ha).2
    subst hr1
    clear ha
    simp only
    by_cases hf : flag = 1
    · rw [if_pos hf]
      refine out_bind (F' := 4) ((out_shift hk2 (txins_out (sdrop s (5 + 1)) (by simp; omega))).mono (Nat.zero_le 4)
        (fun _ _ _ _ _ h => h)) (fun a k t _ _ ⟨_, _, _, _, _, _, _⟩ => by omega) ?_
      rintro ⟨ins2, r2⟩ k3 t3 hk3a hk3 _ ⟨_, hr, hsl3, hk3b, _, ht3, _⟩
      simp only [sdrop_sdrop] at hr
      rw [Nat.add_sub_cancel' hk3a] at hr
      subst hr
      refine out_bind (F' := 4) ((out_shift hk3 (txouts_out (sdrop s k3) (by simp; omega))).mono (Nat.zero_le 4)
        (fun _ _ _ _ _ h => h)) (fun a k t _ _ ⟨_, _, _, _, _, _, _⟩ => by omega) ?_
      rintro ⟨outs, r3⟩ k4 t4 hk4a hk4 _ ⟨_, hr, hsl4, hk4b, _, ht4, _⟩
      simp only [sdrop_sdrop] at hr
      rw [Nat.add_sub_cancel' hk4a] at hr
      subst hr
      refine out_bind (F' := 4) ((out_shift hk4 (witnesses_out (sdrop s k4) (by simp; omega) ins2.n)).mono
        (show 1 ≤ 4 by omega) (fun _ _ _ _ _ h => h)) (fun a k t _ _ ⟨_, _, _⟩ => by omega) ?_
      rintro ⟨wits, r4⟩ k5 t5 hk5a hk5 _ ⟨_, ha, ht5⟩
      simp only [sdrop_sdrop] at ha
      rw [Nat.add_sub_cancel' hk5a] at ha
      obtain ⟨hw, hr4⟩ := Prod.mk.inj ha
      subst hr4
      clear ha
      simp only
      split
      · exact out_lift_err _ _ _ ⟨by simp, by simp⟩ _ _
      · refine out_bind (F' := 1) (out_decLE s k5 hk5 4 4) (fun a k t _ _ ⟨_, _, _⟩ => by omega) ?_
        rintro ⟨lock, rem⟩ k6 t6 _ hk6 _ ⟨rfl, ha, rfl⟩
        cases ha
        simp only
        refine out_bind (F' := 0) (out_emit s _ hk6 _ 1) (fun a k t _ _ ⟨_, _⟩ => by omega) ?_
        rintro _ _ _ _ _ _ ⟨rfl, rfl⟩
        refine (out_pure s _ hk6 _ 0).mono (Nat.le_refl _) ?_
        rintro _ _ _ _ _ ⟨rfl, rfl, rfl⟩
        refine ⟨rfl, viewOf_sdrop hk6, by omega, by omega, ?_⟩
        intro len hlen
        cases hlen
        rw [hsl3, hsl4, stake_len (by simp; omega), stake_len (by simp; omega)]
        omega
    · rw [if_neg hf]
      exact out_lift_err _ _ _ ⟨by simp, by simp⟩ _ _
  · rw [if_neg hn]
    refine out_bind (F' := 4) ((out_shift hk1 (txouts_out (sdrop s k1) (by simp; omega))).mono (Nat.zero_le 4)
      (fun _ _ _ _ _ h => h)) (fun a k t _ _ ⟨_, _, _, _, _, _, _⟩ => by omega) ?_
    rintro ⟨outs, r3⟩ k4 t4 hk4a hk4 _ ⟨_, hr, hsl4, hk4b, _, ht4, _⟩
    simp only [sdrop_sdrop] at hr
    rw [Nat.add_sub_cancel' hk4a] at hr
    subst hr
    refine out_bind (F' := 1) (out_decLE s k4 hk4 4 4) (fun a k t _ _ ⟨_, _, _⟩ => by omega) ?_
    rintro ⟨lock, rem⟩ k6 t6 _ hk6 _ ⟨rfl, ha, rfl⟩
    cases ha
    simp only
    refine out_bind (F' := 0) (out_emit s _ hk6 _ 1) (fun a k t _ _ ⟨_, _⟩ => by omega) ?_
    rintro _ _ _ _ _ _ ⟨rfl, rfl⟩
    refine (out_pure s _ hk6 _ 0).mono (Nat.le_refl _) ?_
    rintro _ _ _ _ _ ⟨rfl, rfl, rfl⟩
    exact ⟨rfl, viewOf_sdrop hk6, by omega, by omega, fun len hlen => by cases hlen⟩


theorem sim_finish {σ} (s : Slice) (k : Nat) (hk : k ≤ s.len) (tx : TxV) :
    Sim (Transaction.finish s k tx : VM σ _) (D.emit (.transaction tx) >>= fun _ => pure (tx, sdrop s k)) := by
  unfold Transaction.finish
  apply sim_emitB_bind rfl
  rw [from_ok hk]
  exact sim_pure _

theorem sim_transaction {σ} (s : Slice) (hs : s.len < 2 ^ 62) :
    Sim (Transaction.visit s : VM σ _) (decTransaction s) := by
  unfold Transaction.visit decTransaction
  rw [decLE_eq, Num.readI32, read_eq]
  by_cases h4 : s.len < 4
  · rw [if_pos h4, if_pos h4]; exact sim_lift _
  · rw [if_neg h4, if_neg h4]
    have h4' : 4 ≤ s.len := by omega
    simp only [vm_lift_ok_bind, d_lift_ok_bind, from_ok h4']
    refine sim_bind (sim_txins (sdrop s 4) (by simp; omega)) ?_
    rintro ⟨ins, r⟩ hres
    obtain ⟨k1, _, hk1, hr, hsl, hk1b, hz1, _, hzero⟩ := (txins_out (sdrop s 4) (by simp; omega)).ok hres
    simp only [sdrop_sdrop, sdrop_len] at hr hk1
    subst hr
    simp only [hz1, vm_lift_ok_bind]
    simp only at hsl hz1 hzero
    by_cases hn : ins.n = 0
    · have hk1e := hzero hn
      subst hk1e
      rw [if_pos hn, if_pos (by simp [hn])]
      rw [read_eq, decLE_eq]
      by_cases h1 : (sdrop s (4 + 1)).len < 1
      · rw [if_pos h1, if_pos h1]; exact sim_lift _
      · rw [if_neg h1, if_neg h1]
        simp only [vm_lift_ok_bind, d_lift_ok_bind]
        generalize leN ((sdrop s (4 + 1)).bytes.take 1) = flag
        simp only [sdrop_len] at h1
        by_cases hf : flag = 1
        · rw [if_pos hf, if_pos hf]
          rw [from_ok (by simp; omega)]
          simp only [vm_lift_ok_bind, sdrop_sdrop]
          refine sim_bind (sim_txins _ (by simp; omega)) ?_
          rintro ⟨ins2, r2⟩ hres2
          obtain ⟨k2, _, hk2, hr, hsl2, hk2b, hz2, _, _⟩ := (txins_out _ (by simp; omega)).ok hres2
          simp only [sdrop_sdrop, sdrop_len] at hr hk2 hsl2 hz2
          subst hr
          simp only []
          refine sim_bind (sim_txouts _ (by simp; omega)) ?_
          rintro ⟨outs, r3⟩ hres3
          obtain ⟨k3, _, hk3, hr, hsl3, hk3b, _, _, _⟩ := (txouts_out _ (by simp; omega)).ok hres3
          simp only [sdrop_sdrop, sdrop_len] at hr hk3 hsl3
          subst hr
          simp only []
          refine sim_bind (sim_witnesses _ (by simp; omega) _) ?_
          rintro ⟨wits, r4⟩ hres4
          obtain ⟨k4, _, hk4, ha, _⟩ := (witnesses_out _ (by simp; omega) _).ok hres4
          simp only [sdrop_sdrop, sdrop_len] at ha hk4
          obtain ⟨hw, hr⟩ := Prod.mk.inj ha
          subst hr
          simp only [hz2, vm_lift_ok_bind]
          have hi : ins2.slice.len = k2 := by rw [hsl2]; exact stake_len (by simp; omega)
          have ho : outs.slice.len = k3 := by rw [hsl3]; exact stake_len (by simp; omega)
          have hwl : wits.slice.len = k4 := by rw [hw]; exact stake_len (by simp; omega)
          rw [hi, ho, hwl]
          obtain ⟨K, hK⟩ : ∃ K, K = 4 + 1 + 1 + k2 + k3 + k4 := ⟨_, rfl⟩
          rw [← hK]
          by_cases hc : ins2.n ≠ 0 ∧ wits.allEmpty = true
          · rw [if_pos hc, if_pos (by simpa using hc)]; exact sim_lift _
          · rw [if_neg hc, if_neg (by simpa using hc)]
            rw [read_eq, decLE_eq]
            by_cases hl : (sdrop s K).len < 4
            · rw [if_pos hl, if_pos hl]; exact sim_lift _
            · rw [if_neg hl, if_neg hl]
              simp only [sdrop_len] at hl
              have hKl : K + 4 ≤ s.len := by omega
              have hnz : nonZero (k2 + k3) = some (k2 + k3) := by unfold nonZero; rw [if_neg (by omega)]
              simp only [vm_lift_ok_bind, d_lift_ok_bind, addU_ok (show 10 + k2 < 2 ^ 64 by omega),
                addU_ok (show 10 + k2 + k3 < 2 ^ 64 by omega), addU_ok (show 10 + k2 + k3 + k4 < 2 ^ 64 by omega),
                addU_ok (show k2 + k3 < 2 ^ 64 by omega), hnz, sdrop_sdrop]
              rw [show 10 + k2 + k3 + k4 = K + 4 by omega, to_ok hKl, viewOf_sdrop hKl]
              exact sim_finish s (K + 4) hKl _
        · rw [if_neg hf, if_neg hf]; exact sim_lift _
    · rw [if_neg hn, if_neg (by simpa using hn)]
      refine sim_bind (sim_txouts _ (by simp; omega)) ?_
      rintro ⟨outs, r3⟩ hres3
      obtain ⟨k3, _, hk3, hr, hsl3, hk3b, _, _, _⟩ := (txouts_out _ (by simp; omega)).ok hres3
      simp only [sdrop_sdrop, sdrop_len] at hr hk3 hsl3
      subst hr
      simp only []
      have hi : ins.slice.len = k1 := by rw [hsl]; exact stake_len (by simp; omega)
      have ho : outs.slice.len = k3 := by rw [hsl3]; exact stake_len (by simp; omega)
      rw [hi, ho, read_eq, decLE_eq]
      by_cases hl : (sdrop s (4 + k1 + k3)).len < 4
      · rw [if_pos hl, if_pos hl]; exact sim_lift _
      · rw [if_neg hl, if_neg hl]
        simp only [sdrop_len] at hl
        have hKl : 4 + k1 + k3 + 4 ≤ s.len := by omega
        simp only [vm_lift_ok_bind, d_lift_ok_bind, addU_ok (show k1 + k3 < 2 ^ 64 by omega),
          addU_ok (show k1 + k3 + 8 < 2 ^ 64 by omega), sdrop_sdrop]
        rw [show k1 + k3 + 8 = 4 + k1 + k3 + 4 by omega, to_ok hKl, viewOf_sdrop hKl]
        exact sim_finish s _ hKl _

theorem refine_transaction {σ} (s : Slice) (hs : s.len < 2 ^ 62) (v : Visitor σ) (st : σ) :
    Transaction.visit s v st = (decTransaction s).run v st := sim_transaction s hs v st

/-! ### block -/

theorem blockLoop_out (s : Slice) (hs : s.len < 2 ^ 62) (n c : Nat) (hc : c ≤ s.len) :
    Out s c (decBlockLoop n (sdrop s c)) 4 (fun r k t => r = sdrop s k ∧ t ≤ 3 * (k - c)) := by
  induction n generalizing c with
  | zero =>
    rw [decBlockLoop]
    exact (out_pure s c hc _ 4).mono (Nat.le_refl _) (fun a k t _ _ ⟨h1, h2, h3⟩ => ⟨by rw [h1, h2], by omega⟩)
  | succ n ih =>
    rw [decBlockLoop]
    refine out_bind (F' := 4) (out_shift hc (tx_out (sdrop s c) (by simp; omega)))
      (fun a k t _ _ ⟨_, _, _, _, _, _⟩ => by omega) ?_
    rintro ⟨tx, r⟩ k t hk1 hk2 _ ⟨_, hr, _, _, ht, _⟩
    simp only [sdrop_sdrop] at hr
    rw [Nat.add_sub_cancel' hk1] at hr
    subst hr
    exact (ih k hk2).mono (Nat.le_refl _) (fun a k t _ _ ⟨h1, h2⟩ => ⟨h1, by omega⟩)

/-- facts about a decoded block -/
def BlockOutP (s : Slice) (a : BlockV × Slice) (k t : Nat) : Prop :=
  a.2 = sdrop s k ∧ a.1.slice = stake s k ∧ 81 ≤ k ∧ a.1.header.slice = stake s 80 ∧ t ≤ 3 * k

theorem block_out (s : Slice) (hs : s.len < 2 ^ 62) : Out s 0 (decBlock s) 4 (BlockOutP s) := by
  unfold decBlock
  refine out_bind (F' := 4) ((header_out s).mono (Nat.zero_le 4) (fun _ _ _ _ _ h => h))
    (fun a k t _ _ ⟨_, _, _, _⟩ => by omega) ?_
  rintro ⟨hd, r⟩ k t _ hk _ ⟨rfl, hr, hsl, rfl⟩
  simp only at hr hsl; subst hr
  refine out_bind (F' := 5) (out_compact s 80 hk 4) (fun a k t _ _ ⟨w, hw, _, _, _⟩ => by have := hw.1; omega) ?_
  rintro ⟨n, r⟩ k t _ hk2 _ ⟨w, hok, hk, hr, ht⟩
  simp only at hr hok; subst hr
  have hw1 := hok.1
  refine out_bind (F' := 4) (out_emit s k hk2 _ 5) (fun a k t _ _ ⟨_, _⟩ => by omega) ?_
  rintro _ k' t' _ _ _ ⟨rfl, rfl⟩
  refine out_bind (F' := 0) (blockLoop_out s hs n k' hk2) (fun a k t _ _ ⟨_, _⟩ => by omega) ?_
  rintro r k2 t2 hk1' hk2' _ ⟨rfl, ht2⟩
  refine (out_pure s k2 hk2' _ 0).mono (Nat.le_refl _) ?_
  rintro _ _ _ _ _ ⟨rfl, rfl, rfl⟩
  exact ⟨rfl, viewOf_sdrop hk2', by omega, hsl, by omega⟩

theorem block_loop_sim {σ β} (s : Slice) (hs : s.len < 2 ^ 62) (n c : Nat) (hc : c ≤ s.len)
    (f : Nat → VM σ β) (g : Slice → D β)
    (h : ∀ k, c ≤ k → k ≤ s.len → Sim (f k) (g (sdrop s k))) :
    Sim (Block.loop s n c >>= f) (decBlockLoop n (sdrop s c) >>= g) := by
  induction n generalizing c with
  | zero =>
    rw [Block.loop, decBlockLoop, vm_pure_bind, d_pure_bind]
    exact h c (Nat.le_refl _) hc
  | succ n ih =>
    rw [Block.loop, decBlockLoop]
    simp only [vm_bind_assoc, d_bind_assoc, from_ok hc, vm_lift_ok_bind]
    refine sim_bind (sim_transaction _ (by simp; omega)) ?_
    rintro ⟨tx, r⟩ hres
    obtain ⟨k, _, hk, hr, hsl, _, _, _⟩ := (tx_out _ (by simp; omega)).ok hres
    simp only [sdrop_sdrop, sdrop_len] at hr hk hsl
    subst hr
    simp only []
    rw [hsl, stake_len (by simp; omega), addU_ok (by omega)]
    simp only [vm_lift_ok_bind]
    exact ih _ (by omega) (fun k h1 h2 => h k (by omega) h2)

theorem sim_block {σ} (s : Slice) (hs : s.len < 2 ^ 62) : Sim (Block.visit s : VM σ _) (decBlock s) := by
  unfold Block.visit decBlock
  refine sim_bind (sim_header s) ?_
  rintro ⟨hd, r⟩ hres
  obtain ⟨k, _, hk, rfl, hr, _, _⟩ := (header_out s).ok hres
  simp only at hr; subst hr
  simp only []
  rcases scan_cases (sdrop s 80) 0 (by omega) with ⟨e, _, h1, h2⟩ | ⟨n, w, hok⟩
  · rw [h1, h2]; exact sim_lift _
  · have ⟨_, _, hwl, _, h1, h2, _⟩ := hok
    simp only [sdrop_len] at hwl
    rw [h1, h2, Nat.zero_add]
    simp only [vm_lift_ok_bind, d_lift_ok_bind, sdrop_sdrop]
    rw [addU_ok (by omega), Nat.add_comm w 80]
    simp only [vm_lift_ok_bind]
    apply sim_emitN_bind rfl
    apply block_loop_sim s hs n (80 + w) (by omega)
    intro k _ hk
    rw [splitAt_ok hk, viewOf_sdrop hk]
    exact sim_pure _

theorem refine_block {σ} (s : Slice) (hs : s.len < 2 ^ 62) (v : Visitor σ) (st : σ) :
    Block.visit s v st = (decBlock s).run v st := sim_block s hs v st

/-! ### non-vacuity: the only hypothesis is `s.len < 2 ^ 62`; both levels on a concrete 60-byte transaction
    and on a truncated one -/

def exampleTx : Slice :=
  ⟨0, [1, 0, 0, 0, 1] ++ List.replicate 36 0 ++ [0, 255, 255, 255, 255, 1, 1, 0, 0, 0, 0, 0, 0, 0, 0, 0, 0, 0, 0]⟩

example : exampleTx.len < 2 ^ 62 := by decide
example : ((decTransaction exampleTx).run recorder []).2.isOk = true := by decide
example : Transaction.visit exampleTx recorder [] = (decTransaction exampleTx).run recorder [] := by decide
example : Transaction.visit (stake exampleTx 50) recorder [] = (decTransaction (stake exampleTx 50)).run recorder [] := by
  decide
example : (Transaction.visit (stake exampleTx 50) recorder []).2 = .err .moreBytesNeeded := by decide

end BS.Ref
