import BS.Lemmas.RefBasic
/-
  Refinement L1 ⊑ L2, part 2: `scanLenQ` against `decCompact`.
-/
namespace BS.Ref
open BS BS.Spec VM

/-- the only errors a decoder produces by itself -/
def DecErr (e : Error) : Prop := e ≠ .visitBreak ∧ ∀ k, e ≠ .other k

theorem decErr_more : DecErr .moreBytesNeeded := ⟨by simp, by simp⟩
theorem decErr_nonMin : DecErr .nonMinimalVarInt := ⟨by simp, by simp⟩

/-- the body of the local function `wide` of `decCompact` -/
def wideD (base : Nat) (t : Bytes) (w min : Nat) : Res (Nat × Slice) :=
  match decLE w ⟨base + 1, t⟩ with
  | .ok (n, r) => if n ≥ min then .ok (n, r) else .err .nonMinimalVarInt
  | .err e => .err e
  | .panic p => .panic p

/-- one wide arm: both levels, all three outcomes -/
theorem wide_cases (base : Nat) (x : UInt8) (t : Bytes) (c w min : Nat) (hw : w ≤ 8) (hc : c + 9 < 2 ^ 64) :
    (t.length < w ∧ scanWide ⟨base, x :: t⟩ c w min = (.err .moreBytesNeeded, c) ∧
      wideD base t w min = .err .moreBytesNeeded) ∨
    (w ≤ t.length ∧ leN (t.take w) < min ∧ scanWide ⟨base, x :: t⟩ c w min = (.err .nonMinimalVarInt, c) ∧
      wideD base t w min = .err .nonMinimalVarInt) ∨
    (w ≤ t.length ∧ min ≤ leN (t.take w) ∧ scanWide ⟨base, x :: t⟩ c w min = (.ok (leN (t.take w)), c + (1 + w)) ∧
      wideD base t w min = .ok (leN (t.take w), ⟨base + 1 + w, t.drop w⟩)) := by
  by_cases hl : t.length < w
  · left
    refine ⟨hl, scanWide_short _ _ _ _ _ (by simp; omega), ?_⟩
    unfold wideD
    rw [decLE_eq, if_pos (by simpa [Slice.len] using hl)]
  · have hl' : w ≤ t.length := by omega
    have hsplit : x :: t = x :: (t.take w ++ t.drop w) := by rw [List.take_append_drop]
    have hp : (t.take w).length = w := by simp; omega
    have hD : decLE w ⟨base + 1, t⟩ = .ok (leN (t.take w), ⟨base + 1 + w, t.drop w⟩) := by
      rw [decLE_eq, if_neg (by simpa [Slice.len] using hl)]; rfl
    right
    by_cases hm : leN (t.take w) < min
    · left
      refine ⟨hl', hm, ?_, ?_⟩
      · rw [hsplit, scanWide_cons _ _ _ _ _ _ _ hp, if_neg (by omega)]
      · unfold wideD; rw [hD]; simp only []; rw [if_neg (by omega)]
    · right
      refine ⟨hl', by omega, ?_, ?_⟩
      · rw [hsplit, scanWide_cons _ _ _ _ _ _ _ hp, if_pos (by omega), addU_ok (by omega)]
      · unfold wideD; rw [hD]; simp only []; rw [if_pos (by omega)]

theorem decCompact_cons (base : Nat) (x : UInt8) (t : Bytes) :
    decCompact ⟨base, x :: t⟩ =
      if x = 0xFF then wideD base t 8 0x100000000
      else if x = 0xFE then wideD base t 4 0x10000
      else if x = 0xFD then wideD base t 2 0xFD
      else .ok (x.toNat, ⟨base + 1, t⟩) := rfl

theorem scanLenQ_cons (base : Nat) (x : UInt8) (t : Bytes) (c : Nat) :
    scanLen ⟨base, x :: t⟩ c =
      if x = 0xFF then scanWide ⟨base, x :: t⟩ c 8 0x100000000
      else if x = 0xFE then scanWide ⟨base, x :: t⟩ c 4 0x10000
      else if x = 0xFD then scanWide ⟨base, x :: t⟩ c 2 0xFD
      else
        match addU c 1 with
        | .ok c' => (.ok x.toNat, c')
        | .err e => (.err e, c)
        | .panic q => (.panic q, c) := rfl

/-- what a compact-size read can do: fail at both levels with the same error, or succeed at both levels, consuming
    `w ∈ 1..9` bytes; the first byte is zero exactly when the value is zero -/
def ScanOk (s : Slice) (c n w : Nat) : Prop :=
  1 ≤ w ∧ w ≤ 9 ∧ w ≤ s.len ∧ n < 2 ^ 64 ∧ decCompact s = .ok (n, sdrop s w) ∧ scanLenQ s c = .ok (n, c + w) ∧
    (∃ x t, s.bytes = x :: t ∧ (x == 0) = (n == 0)) ∧ (n = 0 → w = 1)

theorem scan_wide_arm (base : Nat) (x : UInt8) (t : Bytes) (c w min : Nat) (hw : w ≤ 8) (hc : c + 9 < 2 ^ 64)
    (hx : x ≠ 0) (hmin : 0 < min)
    (h1 : scanLen ⟨base, x :: t⟩ c = scanWide ⟨base, x :: t⟩ c w min)
    (h2 : decCompact ⟨base, x :: t⟩ = wideD base t w min) :
    (∃ e, DecErr e ∧ decCompact ⟨base, x :: t⟩ = .err e ∧ scanLenQ ⟨base, x :: t⟩ c = .err e) ∨
    (∃ n w, ScanOk ⟨base, x :: t⟩ c n w) := by
  rcases wide_cases base x t c w min hw hc with ⟨_, a1, a2⟩ | ⟨_, _, a1, a2⟩ | ⟨hl, hm, a1, a2⟩
  · left; exact ⟨_, decErr_more, by rw [h2, a2], by unfold scanLenQ; rw [h1, a1]⟩
  · left; exact ⟨_, decErr_nonMin, by rw [h2, a2], by unfold scanLenQ; rw [h1, a1]⟩
  · right
    have hlt := leN_lt (t.take w)
    have hp : (t.take w).length = w := by simp; omega
    have hpow : 256 ^ (t.take w).length ≤ 2 ^ 64 := by
      rw [hp, show (256 : Nat) = 2 ^ 8 by rfl, ← Nat.pow_mul]
      exact Nat.pow_le_pow_right (by omega) (by omega)
    refine ⟨leN (t.take w), 1 + w, by omega, by omega, by simp [Slice.len]; omega, by omega, ?_, ?_, ⟨x, t, rfl, ?_⟩, by omega⟩
    · rw [h2, a2]; simp [sdrop, Nat.add_assoc, Nat.add_comm 1 w]
    · unfold scanLenQ; rw [h1, a1]
    · have : leN (t.take w) ≠ 0 := by omega
      rw [beq_eq_false_iff_ne.mpr hx, beq_eq_false_iff_ne.mpr this]

theorem scan_cases (s : Slice) (c : Nat) (hc : c + 9 < 2 ^ 64) :
    (∃ e, DecErr e ∧ decCompact s = .err e ∧ scanLenQ s c = .err e) ∨ (∃ n w, ScanOk s c n w) := by
  obtain ⟨base, bs⟩ := s
  cases bs with
  | nil =>
    left
    exact ⟨_, decErr_more, rfl, rfl⟩
  | cons x t =>
    by_cases x1 : x = 0xFF
    · exact scan_wide_arm base x t c 8 0x100000000 (by omega) hc (by rw [x1]; decide) (by omega)
        (by rw [scanLenQ_cons, if_pos x1]) (by rw [decCompact_cons, if_pos x1])
    · by_cases x2 : x = 0xFE
      · exact scan_wide_arm base x t c 4 0x10000 (by omega) hc (by rw [x2]; decide) (by omega)
          (by rw [scanLenQ_cons, if_neg x1, if_pos x2]) (by rw [decCompact_cons, if_neg x1, if_pos x2])
      · by_cases x3 : x = 0xFD
        · exact scan_wide_arm base x t c 2 0xFD (by omega) hc (by rw [x3]; decide) (by omega)
            (by rw [scanLenQ_cons, if_neg x1, if_neg x2, if_pos x3])
            (by rw [decCompact_cons, if_neg x1, if_neg x2, if_pos x3])
        · right
          have := x.toNat_lt
          refine ⟨x.toNat, 1, by omega, by omega, by simp [Slice.len], by omega, ?_, ?_, ⟨x, t, rfl, ?_⟩, fun _ => rfl⟩
          · rw [decCompact_cons, if_neg x1, if_neg x2, if_neg x3]; simp [sdrop]
          · unfold scanLenQ
            rw [scanLenQ_cons, if_neg x1, if_neg x2, if_neg x3, addU_ok (by omega)]
          · by_cases hz : x = 0
            · subst hz; rfl
            · have : x.toNat ≠ 0 := fun e => hz (by rw [← u8_eq_ofNat_toNat x, e]; rfl)
              rw [beq_eq_false_iff_ne.mpr hz, beq_eq_false_iff_ne.mpr this]

/-- the incremental decoder is the reference decoder plus bookkeeping of the caller's counter -/
theorem scanLenQ_eq (s : Slice) (c : Nat) (hc : c + 9 < 2 ^ 64) :
    scanLenQ s c = (do let (n, r) ← decCompact s; pure (n, c + (s.len - r.len))) := by
  rcases scan_cases s c hc with ⟨e, _, h1, h2⟩ | ⟨n, w, _, _, hw, _, h1, h2, _⟩
  · rw [h1, h2]; rfl
  · rw [h1, h2]
    simp only [Res.bind_ok, Res.pure_eq, sdrop_len]
    congr 2; omega

/-- `decCompact` in terms of bytes consumed -/
theorem decCompact_ok {s : Slice} {n : Nat} {r : Slice} (h : decCompact s = .ok (n, r)) :
    ∃ w, ScanOk s 0 n w ∧ r = sdrop s w := by
  rcases scan_cases s 0 (by omega) with ⟨e, _, h1, _⟩ | ⟨n', w, hs⟩
  · rw [h] at h1; cases h1
  · have h1 := hs.2.2.2.2.1
    rw [h] at h1
    cases h1
    exact ⟨w, hs, rfl⟩

theorem decCompact_err {s : Slice} {e : Error} (h : decCompact s = .err e) : DecErr e := by
  rcases scan_cases s 0 (by omega) with ⟨e', he, h1, _⟩ | ⟨n', w, hs⟩
  · rw [h] at h1; cases h1; exact he
  · have h1 := hs.2.2.2.2.1
    rw [h] at h1; cases h1

theorem decCompact_nopanic (s : Slice) (p : Panic) : decCompact s ≠ .panic p := by
  intro h
  rcases scan_cases s 0 (by omega) with ⟨e', he, h1, _⟩ | ⟨n', w, hs⟩
  · rw [h] at h1; cases h1
  · have h1 := hs.2.2.2.2.1
    rw [h] at h1; cases h1

/-- `is_empty` of a view that starts at a canonically decoded count -/
theorem firstIsZero_of_scan {s : Slice} {c n w k : Nat} (h : ScanOk s c n w) (hk : 1 ≤ k) :
    firstIsZero (stake s k) = .ok (n == 0) := by
  obtain ⟨_, _, _, _, _, _, ⟨x, t, hb, hx⟩, _⟩ := h
  obtain ⟨m, rfl⟩ : ∃ m, k = m + 1 := ⟨k - 1, by omega⟩
  simp [firstIsZero, Slice.index, stake, hb, ← hx]

end BS.Ref
