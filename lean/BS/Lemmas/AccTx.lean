import BS.Lemmas.AccOut
/- helper lemmas: the L2 list decoders and the byte layout of a decoded transaction -/
namespace BS.Acc
open BS BS.Spec

/-! ### inputs -/

theorem decTxIn_cons {s : Slice} {x : TxInV} {rem : Slice} (h : decTxIn s = .ok (x, rem)) :
    ∃ v, Cons s v rem := by
  unfold decTxIn decOutPoint at h
  obtain ⟨⟨op, r1⟩, h1, h⟩ := res_bind_ok.mp h
  obtain ⟨⟨p, r1'⟩, h0, h1⟩ := res_bind_ok.mp h1
  simp only [Res.pure_eq, Res.ok.injEq, Prod.mk.injEq] at h1
  obtain ⟨_, e⟩ := h1
  subst e
  obtain ⟨⟨sc, r2⟩, h2, h⟩ := res_bind_ok.mp h
  obtain ⟨⟨sq, r3⟩, h3, h⟩ := res_bind_ok.mp h
  simp only [Res.pure_eq, Res.ok.injEq, Prod.mk.injEq] at h
  obtain ⟨_, e⟩ := h
  subst e
  obtain ⟨c1, _, _⟩ := takeN_ok h0
  obtain ⟨body, _, c2, _⟩ := decScript_ok h2
  obtain ⟨v, c3, _, _⟩ := decLE_ok h3
  exact ⟨_, (c1.trans c2).trans c3⟩

theorem decTxInsLoop_cons : ∀ (n i : Nat) (s rem : Slice), (decTxInsLoop n i s).res = .ok rem → ∃ v, Cons s v rem := by
  intro n
  induction n with
  | zero =>
    intro i s rem h
    simp only [decTxInsLoop, d_pure_res, Res.ok.injEq] at h
    subst h; exact ⟨[], Cons.refl s⟩
  | succ n ih =>
    intro i s rem h
    unfold decTxInsLoop at h
    obtain ⟨⟨x, r⟩, h1, h⟩ := d_bind_res_ok.mp h
    obtain ⟨_, _, h⟩ := d_bind_res_ok.mp h
    obtain ⟨v1, c1⟩ := decTxIn_cons (by simpa using h1)
    obtain ⟨v2, c2⟩ := ih _ _ _ h
    exact ⟨_, c1.trans c2⟩

theorem decTxIns_ok {s : Slice} {o : TxInsV} {rem : Slice} (h : (decTxIns s).res = .ok (o, rem)) :
    ∃ v, Cons s (encCompact o.n ++ v) rem ∧ o.slice = ⟨s.base, encCompact o.n ++ v⟩ ∧ o.n < 2 ^ 64 ∧
      (o.n = 0 → v = []) := by
  unfold decTxIns at h
  obtain ⟨⟨n, r⟩, h1, h⟩ := d_bind_res_ok.mp h
  obtain ⟨_, _, h⟩ := d_bind_res_ok.mp h
  obtain ⟨rem', h2, h⟩ := d_bind_res_ok.mp h
  simp only [d_pure_res, Res.ok.injEq, Prod.mk.injEq] at h
  obtain ⟨e1, e2⟩ := h
  subst e2
  obtain ⟨c1, hn⟩ := decCompact_ok (by simpa using h1)
  obtain ⟨v, c2⟩ := decTxInsLoop_cons _ _ _ _ h2
  have c := c1.trans c2
  rw [← e1, c.viewOf]
  refine ⟨v, c, rfl, hn, ?_⟩
  intro h0
  simp only at h0
  subst h0
  simp only [decTxInsLoop, d_pure_res, Res.ok.injEq] at h2
  subst h2
  have := c2.1
  simpa using this

/-! ### outputs -/

/-- value bytes and script payload of each output -/
abbrev Items := List (Bytes × Bytes)

def flat : Items → Bytes
  | [] => []
  | p :: l => encItem p.1 p.2 ++ flat l

def ItemsOK (l : Items) : Prop := ∀ p ∈ l, p.1.length = 8 ∧ p.2.length < 2 ^ 64

/-- the output views, the first one at absolute offset `b` -/
def outsAt (b : Nat) : Items → List TxOutV
  | [] => []
  | p :: l => mkTxOut b p.1 p.2 :: outsAt (b + (encItem p.1 p.2).length) l

/-- the `visit_tx_out` calls, the first one with index `i` -/
def evsAt (b i : Nat) : Items → List Event
  | [] => []
  | p :: l => .txOut i (mkTxOut b p.1 p.2) :: evsAt (b + (encItem p.1 p.2).length) (i + 1) l

theorem decTxOutsLoop_ok : ∀ (n i : Nat) (s rem : Slice), (decTxOutsLoop n i s).res = .ok rem →
    ∃ l : Items, l.length = n ∧ ItemsOK l ∧ Cons s (flat l) rem ∧ (decTxOutsLoop n i s).trace = evsAt s.base i l := by
  intro n
  induction n with
  | zero =>
    intro i s rem h
    simp only [decTxOutsLoop, d_pure_res, Res.ok.injEq] at h
    subst h
    exact ⟨[], rfl, (by intro p hp; cases hp), Cons.refl s, rfl⟩
  | succ n ih =>
    intro i s rem h
    unfold decTxOutsLoop at h ⊢
    obtain ⟨⟨x, r⟩, h1, h⟩ := d_bind_res_ok.mp h
    obtain ⟨u, h2, h⟩ := d_bind_res_ok.mp h
    obtain ⟨v8, body, h8, hb, c1, hx⟩ := decTxOut_ok (by simpa using h1)
    obtain ⟨l, hl, hok, c2, htr⟩ := ih _ _ _ h
    refine ⟨(v8, body) :: l, by simp [hl], ?_, c1.trans c2, ?_⟩
    · intro p hp
      cases hp with
      | head => exact ⟨h8, hb⟩
      | tail _ hp => exact hok p hp
    · rw [d_bind_trace h1]
      simp only [d_lift_trace, List.nil_append]
      rw [d_bind_trace h2, htr, c1.2, hx]
      rfl

theorem decTxOuts_ok {s : Slice} {o : TxOutsV} {rem : Slice} (h : (decTxOuts s).res = .ok (o, rem)) :
    ∃ l : Items, l.length = o.n ∧ o.n < 2 ^ 64 ∧ ItemsOK l ∧ Cons s (encCompact o.n ++ flat l) rem ∧
      o.slice = ⟨s.base, encCompact o.n ++ flat l⟩ ∧
      (decTxOuts s).trace = .txOuts o.n :: evsAt (s.base + compactWidth o.n) 0 l := by
  unfold decTxOuts at h ⊢
  obtain ⟨⟨n, r⟩, h1, h⟩ := d_bind_res_ok.mp h
  obtain ⟨u, h2, h⟩ := d_bind_res_ok.mp h
  obtain ⟨rem', h3, h⟩ := d_bind_res_ok.mp h
  simp only [d_pure_res, Res.ok.injEq, Prod.mk.injEq] at h
  obtain ⟨e1, e2⟩ := h
  subst e2
  obtain ⟨c1, hn⟩ := decCompact_ok (by simpa using h1)
  obtain ⟨l, hl, hok, c2, htr⟩ := decTxOutsLoop_ok _ _ _ _ h3
  have c := c1.trans c2
  rw [← e1, c.viewOf]
  refine ⟨l, hl, hn, hok, c, rfl, ?_⟩
  rw [d_bind_trace h1]
  simp only [d_lift_trace, List.nil_append]
  rw [d_bind_trace h2, d_bind_trace h3, htr, c1.2, encCompact_length]
  simp

/-! ### witnesses -/

theorem decWitnessLoop_cons : ∀ (n i : Nat) (s rem : Slice), (decWitnessLoop n i s).res = .ok rem → ∃ v, Cons s v rem := by
  intro n
  induction n with
  | zero =>
    intro i s rem h
    simp only [decWitnessLoop, d_pure_res, Res.ok.injEq] at h
    subst h; exact ⟨[], Cons.refl s⟩
  | succ n ih =>
    intro i s rem h
    unfold decWitnessLoop at h
    obtain ⟨⟨len, r⟩, h1, h⟩ := d_bind_res_ok.mp h
    obtain ⟨⟨el, r'⟩, h2, h⟩ := d_bind_res_ok.mp h
    obtain ⟨_, _, h⟩ := d_bind_res_ok.mp h
    obtain ⟨c1, _⟩ := decCompact_ok (by simpa using h1)
    obtain ⟨c2, _, _⟩ := takeN_ok (by simpa using h2)
    obtain ⟨v3, c3⟩ := ih _ _ _ h
    exact ⟨_, (c1.trans c2).trans c3⟩

theorem decWitness_cons {s : Slice} {x : WitnessV × Bool × Slice} (h : (decWitness s).res = .ok x) :
    ∃ v, Cons s v x.2.2 := by
  unfold decWitness at h
  obtain ⟨⟨n, r⟩, h1, h⟩ := d_bind_res_ok.mp h
  obtain ⟨_, _, h⟩ := d_bind_res_ok.mp h
  obtain ⟨rem', h2, h⟩ := d_bind_res_ok.mp h
  simp only [d_pure_res, Res.ok.injEq] at h
  subst h
  obtain ⟨c1, _⟩ := decCompact_ok (by simpa using h1)
  obtain ⟨v, c2⟩ := decWitnessLoop_cons _ _ _ _ h2
  exact ⟨_, c1.trans c2⟩

theorem decWitnessesLoop_cons : ∀ (n i : Nat) (s : Slice) (ae : Bool) (x : Slice × Bool),
    (decWitnessesLoop n i s ae).res = .ok x → ∃ v, Cons s v x.1 := by
  intro n
  induction n with
  | zero =>
    intro i s ae x h
    simp only [decWitnessesLoop, d_pure_res, Res.ok.injEq] at h
    subst h; exact ⟨[], Cons.refl s⟩
  | succ n ih =>
    intro i s ae x h
    unfold decWitnessesLoop at h
    obtain ⟨_, _, h⟩ := d_bind_res_ok.mp h
    obtain ⟨⟨w, e, r⟩, h1, h⟩ := d_bind_res_ok.mp h
    obtain ⟨_, _, h⟩ := d_bind_res_ok.mp h
    obtain ⟨v1, c1⟩ := decWitness_cons h1
    obtain ⟨v2, c2⟩ := ih _ _ _ _ h
    exact ⟨_, c1.trans c2⟩

theorem decWitnesses_ok {s : Slice} {n : Nat} {w : WitnessesV} {rem : Slice}
    (h : (decWitnesses s n).res = .ok (w, rem)) : ∃ v, Cons s v rem ∧ w.slice = ⟨s.base, v⟩ := by
  unfold decWitnesses at h
  obtain ⟨⟨rem', ae⟩, h1, h⟩ := d_bind_res_ok.mp h
  simp only [d_pure_res, Res.ok.injEq, Prod.mk.injEq] at h
  obtain ⟨e1, e2⟩ := h
  subst e2
  obtain ⟨v, c⟩ := decWitnessesLoop_cons _ _ _ _ _ h1
  exact ⟨v, c, by rw [← e1, c.viewOf]⟩


/-! ### transactions -/

/-- The byte layout of a decoded transaction `t` (decoded from `s`, leaving `rem`):
    `ver` version, `mid` nothing (legacy) or marker+flag (segwit), `ins` / `outs` the views of the decoded input and
    output lists, `wits` the witnesses (segwit only), `lock` the lock time. -/
structure TxLayout (s : Slice) (t : TxV) (rem : Slice) (ver mid ins outs wits lock : Bytes) : Prop where
  ver_len : ver.length = 4
  lock_len : lock.length = 4
  base : t.slice.base = s.base
  bytes : t.slice.bytes = ver ++ mid ++ ins ++ outs ++ wits ++ lock
  cons : Cons s t.slice.bytes rem
  form : (t.ioLen = none ∧ mid = [] ∧ wits = []) ∨ (t.ioLen = some (ins.length + outs.length) ∧ mid = [0x00, 0x01])
  dec : ∃ iv r1, (decTxIns ⟨s.base + 4 + mid.length, ins ++ outs ++ wits ++ lock ++ rem.bytes⟩).res = .ok (iv, r1) ∧
          iv.slice.bytes = ins ∧
        ∃ ov r2, (decTxOuts r1).res = .ok (ov, r2) ∧ ov.slice.bytes = outs ∧
          (mid ≠ [] → ∃ wv r3, (decWitnesses r2 iv.n).res = .ok (wv, r3) ∧ wv.slice.bytes = wits)
  ins_pos : 1 ≤ ins.length
  outs_pos : 1 ≤ outs.length

theorem slice_eta (s : Slice) : s = ⟨s.base, s.bytes⟩ := rfl

theorem enc_append_pos (n : Nat) (v : Bytes) : 1 ≤ (encCompact n ++ v).length := by
  have := compactWidth_pos n
  simp [encCompact_length]; omega

theorem leN_one_eq {v : Bytes} (hl : v.length = 1) (h : leN v = 1) : v = [0x01] := by
  have : leN v = leN [0x01] := by rw [h]; rfl
  exact leN_inj (by simp [hl]) this

theorem tx_layout_legacy {s s4 r : Slice} {inputs : TxInsV} {t : TxV} {rem : Slice} {ver : Bytes}
    (c0 : Cons s ver s4) (hv : ver.length = 4) (h1 : (decTxIns s4).res = .ok (inputs, r))
    (h : (do
        let (_outputs, r1) ← decTxOuts r
        let (_lock, rem) ← D.lift (decLE 4 r1)
        let tx : TxV := ⟨viewOf s rem, none⟩
        D.emit (.transaction tx)
        pure (tx, rem) : D (TxV × Slice)).res = .ok (t, rem)) :
    ∃ ins outs lock, TxLayout s t rem ver [] ins outs [] lock := by
  obtain ⟨⟨outputs, r1⟩, h2, h⟩ := d_bind_res_ok.mp h
  obtain ⟨⟨lk, rem'⟩, h3, h⟩ := d_bind_res_ok.mp h
  obtain ⟨_, _, h⟩ := d_bind_res_ok.mp h
  simp only [d_pure_res, Res.ok.injEq, Prod.mk.injEq] at h
  obtain ⟨e1, e2⟩ := h
  subst e2
  obtain ⟨vi, ci, hi, _, _⟩ := decTxIns_ok h1
  obtain ⟨l, _, _, _, co, ho, _⟩ := decTxOuts_ok h2
  obtain ⟨lock, cl, hl, _⟩ := decLE_ok (by simpa using h3)
  have c := ((c0.trans ci).trans co).trans cl
  have hs4 : s4 = ⟨s.base + 4 + 0, (encCompact inputs.n ++ vi) ++ (encCompact outputs.n ++ flat l) ++ [] ++ lock ++ rem'.bytes⟩ := by
    rw [slice_eta s4, c0.2, hv, ci.1, co.1, cl.1]; simp
  refine ⟨encCompact inputs.n ++ vi, encCompact outputs.n ++ flat l, lock, ?_⟩
  rw [← e1, c.viewOf]
  exact {
    ver_len := hv, lock_len := hl, base := rfl
    bytes := by simp
    cons := c
    form := Or.inl ⟨rfl, rfl, rfl⟩
    dec := ⟨inputs, r, by rw [List.length_nil, ← hs4]; exact h1, by rw [hi], outputs, r1, h2, by rw [ho],
            fun hne => absurd rfl hne⟩
    ins_pos := enc_append_pos _ _
    outs_pos := enc_append_pos _ _ }

theorem tx_layout_segwit {s r1 : Slice} {t : TxV} {rem : Slice} {pre : Bytes}
    (c0 : Cons s pre r1)
    (h : (do
        let (inputs, r2) ← decTxIns r1
        let (outputs, r3) ← decTxOuts r2
        let (witnesses, r4) ← decWitnesses r3 inputs.n
        if inputs.n ≠ 0 ∧ witnesses.allEmpty = true then
          D.lift (.err .segwitFlagWithoutWitnesses)
        else
          let (_lock, rem) ← D.lift (decLE 4 r4)
          let tx : TxV := ⟨viewOf s rem, some (inputs.slice.len + outputs.slice.len)⟩
          D.emit (.transaction tx)
          pure (tx, rem) : D (TxV × Slice)).res = .ok (t, rem)) :
    ∃ ins outs wits lock, lock.length = 4 ∧ 1 ≤ ins.length ∧ 1 ≤ outs.length ∧
      t = ⟨⟨s.base, pre ++ ins ++ outs ++ wits ++ lock⟩, some (ins.length + outs.length)⟩ ∧
      Cons s (pre ++ ins ++ outs ++ wits ++ lock) rem ∧
      ∃ iv r2, (decTxIns r1).res = .ok (iv, r2) ∧ iv.slice.bytes = ins ∧
      ∃ ov r3, (decTxOuts r2).res = .ok (ov, r3) ∧ ov.slice.bytes = outs ∧
      ∃ wv r4, (decWitnesses r3 iv.n).res = .ok (wv, r4) ∧ wv.slice.bytes = wits ∧
      r1.bytes = ins ++ outs ++ wits ++ lock ++ rem.bytes := by
  obtain ⟨⟨inputs, r2⟩, h1, h⟩ := d_bind_res_ok.mp h
  obtain ⟨⟨outputs, r3⟩, h2, h⟩ := d_bind_res_ok.mp h
  obtain ⟨⟨witnesses, r4⟩, h3, h⟩ := d_bind_res_ok.mp h
  simp only at h
  split at h
  · simp at h
  · obtain ⟨⟨lk, rem'⟩, h4, h⟩ := d_bind_res_ok.mp h
    obtain ⟨_, _, h⟩ := d_bind_res_ok.mp h
    simp only [d_pure_res, Res.ok.injEq, Prod.mk.injEq] at h
    obtain ⟨e1, e2⟩ := h
    subst e2
    obtain ⟨vi, ci, hi, _, _⟩ := decTxIns_ok h1
    obtain ⟨l, _, _, _, co, ho, _⟩ := decTxOuts_ok h2
    obtain ⟨wits, cw, hw⟩ := decWitnesses_ok h3
    obtain ⟨lock, cl, hl, _⟩ := decLE_ok (by simpa using h4)
    have c := (((c0.trans ci).trans co).trans cw).trans cl
    refine ⟨encCompact inputs.n ++ vi, encCompact outputs.n ++ flat l, wits, lock, hl, enc_append_pos _ _,
      enc_append_pos _ _, ?_, c, inputs, r2, h1, by rw [hi], outputs, r3, h2, by rw [ho], witnesses, r4, h3,
      by rw [hw], ?_⟩
    · rw [← e1, c.viewOf, hi, ho]
      simp [Slice.len]
    · rw [ci.1, co.1, cw.1, cl.1]; simp

/-- the structure lemma: every decoded transaction has the legacy or the segwit byte layout -/
theorem tx_layout {s : Slice} {t : TxV} {rem : Slice} (h : (decTransaction s).res = .ok (t, rem)) :
    ∃ ver mid ins outs wits lock, TxLayout s t rem ver mid ins outs wits lock := by
  unfold decTransaction at h
  obtain ⟨⟨v, s4⟩, h0, h⟩ := d_bind_res_ok.mp h
  obtain ⟨⟨inputs, r⟩, h1, h⟩ := d_bind_res_ok.mp h
  obtain ⟨ver, c0, hv, _⟩ := decLE_ok (by simpa using h0)
  simp only at h
  split at h
  · rename_i hz
    obtain ⟨⟨flag, r1⟩, hf, h⟩ := d_bind_res_ok.mp h
    simp only at h
    split at h
    · rename_i hflag
      obtain ⟨vi, ci, _, _, hvi⟩ := decTxIns_ok h1
      have e0 : encCompact 0 = [0x00] := by decide
      replace ci : Cons s4 [0x00] r := by rw [hz, hvi hz, e0] at ci; exact ci
      obtain ⟨fb, cf, hfl, hfv⟩ := decLE_ok (by simpa using hf)
      have hfb : fb = [0x01] := leN_one_eq hfl (by rw [← hfv, hflag])
      subst hfb
      have cpre := (c0.trans ci).trans cf
      obtain ⟨ins, outs, wits, lock, hl, hip, hop, ht, c, iv, r2, hi, hib, ov, r3, ho, hob, wv, r4, hw, hwb, hr1⟩ :=
        tx_layout_segwit cpre h
      refine ⟨ver, [0x00, 0x01], ins, outs, wits, lock, ?_⟩
      have hr1' : r1 = ⟨s.base + 4 + 2, ins ++ outs ++ wits ++ lock ++ rem.bytes⟩ := by
        rw [slice_eta r1, cpre.2, hr1]; simp [hv]
      subst ht
      exact {
        ver_len := hv, lock_len := hl, base := rfl
        bytes := by simp
        cons := by simpa using c
        form := Or.inr ⟨rfl, rfl⟩
        dec := ⟨iv, r2, by rw [hr1'] at hi; exact hi, hib, ov, r3, ho, hob, fun _ => ⟨wv, r4, hw, hwb⟩⟩
        ins_pos := hip
        outs_pos := hop }
    · simp at h
  · obtain ⟨ins, outs, lock, hl⟩ := tx_layout_legacy c0 hv h1 h
    exact ⟨ver, [], ins, outs, [], lock, hl⟩


/-! example inputs used for non-vacuity in the property files: a legacy and a segwit transaction (one input, one
    output each) and the witness-stripped form of the second -/
def exLegacyTx : Bytes :=
  [1,0,0,0, 1] ++ List.replicate 32 0xAA ++ [0xff,0xff,0xff,0xff, 0, 0xfe,0xff,0xff,0xff] ++
  [1, 1,2,3,4,5,6,7,8, 1, 0x51] ++ [9,0,0,0]
def exSegwitTx : Bytes :=
  [2,0,0,0, 0,1, 1] ++ List.replicate 32 0xAA ++ [0,0,0,0, 0, 0xfe,0xff,0xff,0xff] ++
  [1, 1,2,3,4,5,6,7,8, 1, 0x51] ++ [1, 1, 0xBB] ++ [9,0,0,0]
def exStrippedTx : Bytes :=
  [2,0,0,0, 1] ++ List.replicate 32 0xAA ++ [0,0,0,0, 0, 0xfe,0xff,0xff,0xff] ++
  [1, 1,2,3,4,5,6,7,8, 1, 0x51] ++ [9,0,0,0]

end BS.Acc
