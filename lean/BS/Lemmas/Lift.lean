import BS.Lemmas.RefTx
import BS.Lemmas.RefWitness
import BS.Lemmas.RefProps
/-
  Lifting lemmas: how facts about the L2 decoders become facts about the L1 model (the code as transcribed),
  through the refinement theorems `Ref.refine_*`.
-/
namespace BS.Lift
open BS BS.Spec BS.Ref

/-- a visit that ends in `ok` under *any* visitor: the L2 result is that `ok` -/
theorem ok_of_sim {σ α} {m : VM σ α} {d : D α} (h : ∀ v st, m v st = d.run v st) {v : Visitor σ} {st st' : σ} {a : α}
    (hv : m v st = (st', .ok a)) : d.res = .ok a :=
  run_ok (d := d) (v := v) (st := st) (by rw [← h v st, hv])

/-- `parse` (= visit with the empty visitor) is the L2 result -/
theorem parseOf_eq {α} {m : VM Unit α} {d : D α} (h : ∀ v st, m v st = d.run v st) : parseOf m = d.res := by
  unfold parseOf
  rw [h emptyVisitor ()]
  have := run_never d emptyVisitor () (noBreak_of_never _ neverBreaks_empty _ _)
  rw [this]

theorem parseOf_txins (s : Slice) (hs : s.len < 2 ^ 62) : parseOf (TxIns.visit s) = (decTxIns s).res :=
  parseOf_eq (refine_txins s hs)
theorem parseOf_txouts (s : Slice) (hs : s.len < 2 ^ 62) : parseOf (TxOuts.visit s) = (decTxOuts s).res :=
  parseOf_eq (refine_txouts s hs)
theorem parseOf_witnesses (s : Slice) (hs : s.len < 2 ^ 62) (n : Nat) :
    parseOf (Witnesses.visit s n) = (decWitnesses s n).res :=
  parseOf_eq (refine_witnesses s hs n)
theorem parseOf_transaction (s : Slice) (hs : s.len < 2 ^ 62) : parseOf (Transaction.visit s) = (decTransaction s).res :=
  parseOf_eq (refine_transaction s hs)
theorem parseOf_header (s : Slice) : parseOf (BlockHeader.visit s) = (decHeader s).res :=
  parseOf_eq (refine_header s)
theorem parseOf_block (s : Slice) (hs : s.len < 2 ^ 62) : parseOf (Block.visit s) = (decBlock s).res :=
  parseOf_eq (refine_block s hs)
theorem parseOf_witness (s : Slice) (hs : s.len < 2 ^ 62) :
    parseOf (Witness.visit s) = (decWitness s).res.map' (fun x => (x.1, x.2.2)) := by
  rw [← witnessD_res]
  exact parseOf_eq (sim_witness s hs)

/-- the recording visitor sees exactly the L2 trace (newest first) and gets the L2 result -/
theorem recorder_eq {α} {m : VM (List Event) α} {d : D α} (h : ∀ v st, m v st = d.run v st) :
    m recorder [] = (d.trace.reverse, d.res) := by
  rw [h recorder []]
  have := run_never d recorder [] (noBreak_of_never _ neverBreaks_recorder _ _)
  rw [this, feed_recorder]
  simp

end BS.Lift
