import BS.Impl.Extra
import BS.Impl.Cache
import BS.Spec.Decode
/-
  `bsmodel`: reads an ops file on stdin (one operation per line), runs the L1 model, prints one canonical
  result line per operation. The Rust harness prints the same lines from the real crate.
-/
namespace BS.Driver
open BS

def hexDigit (n : Nat) : Char := if n < 10 then Char.ofNat (48 + n) else Char.ofNat (87 + n)

def toHex (l : Bytes) : String :=
  String.ofList (l.foldr (fun b acc => hexDigit (b.toNat / 16) :: hexDigit (b.toNat % 16) :: acc) [])

def hexVal (c : Char) : Option Nat :=
  if '0' ≤ c ∧ c ≤ '9' then some (c.toNat - 48)
  else if 'a' ≤ c ∧ c ≤ 'f' then some (c.toNat - 87)
  else if 'A' ≤ c ∧ c ≤ 'F' then some (c.toNat - 55)
  else none

def fromHexAux : List Char → List UInt8 → Option Bytes
  | [], acc => some acc.reverse
  | [_], _ => none
  | a :: b :: rest, acc =>
    match hexVal a, hexVal b with
    | some x, some y => fromHexAux rest (UInt8.ofNat (x * 16 + y) :: acc)
    | _, _ => none

/-- `-` is the empty string -/
def fromHex (s : String) : Option Bytes :=
  if s == "-" then some [] else fromHexAux s.toList []

def errName : Error → String
  | .moreBytesNeeded => "MoreBytesNeeded"
  | .unknownSegwitFlag f => s!"UnknownSegwitFlag({f.toNat})"
  | .segwitFlagWithoutWitnesses => "SegwitFlagWithoutWitnesses"
  | .nonMinimalVarInt => "NonMinimalVarInt"
  | .visitBreak => "VisitBreak"
  | .other c => s!"Other({c})"

def resHead {α} : Res α → String
  | .ok _ => "ok"
  | .err e => "err:" ++ errName e
  | .panic _ => "panic"

/-- a slice as `@offset+len` relative to the input start; the static empty literal as `@-` -/
def sl (s : Slice) : String := s!"@{s.base}+{s.len}"

def rs {α} (f : α → String) : Res α → String
  | .ok a => f a
  | .err e => "err:" ++ errName e
  | .panic _ => "panic"

def scriptF (v : ScriptV) : String := s!"v={sl v.slice},script={rs sl v.script}"
def outPointF (v : OutPointV) : String := s!"v={sl v.slice},txid={rs sl v.txid},vout={rs toString v.vout}"
def txInF (v : TxInV) : String :=
  s!"v={sl v.slice},prev=({outPointF v.prevout}),ss={rs sl v.scriptSigBytes},seq={v.sequence}"
def txOutF (v : TxOutV) : String := s!"v={sl v.slice},value={v.value},spk={rs sl v.scriptPubkeyBytes}"
def boolS (b : Bool) : String := if b then "true" else "false"
def txInsF (v : TxInsV) : String := s!"v={sl v.slice},n={v.n},empty={rs boolS (firstIsZero v.slice)}"

def iterF (o : TxOutsV) : String :=
  match o.iter with
  | .ok it =>
    let rec go : Nat → IterV → List String → List String → String
      | 0, _, items, hints => s!"[{";".intercalate items.reverse}],hints=[{",".intercalate hints.reverse}],fuel"
      | fuel + 1, it, items, hints =>
        let hints := (toString it.sizeHint.1) :: hints
        match it.next with
        | .ok (some x, it') => go fuel it' (("(" ++ txOutF x ++ ")") :: items) hints
        | .ok (none, it') =>
          -- after the end: the reported remaining length, and what one more `next()` answers (the iterator is fused)
          let again := match it'.next with
            | .ok (none, it'') => s!"none/{it''.sizeHint.1}"
            | .ok (some _, _) => "some"
            | _ => "panic"
          s!"[{";".intercalate items.reverse}],hints=[{",".intercalate hints.reverse}],after={it'.sizeHint.1}:{again}"
        | _ => s!"[{";".intercalate items.reverse}],hints=[{",".intercalate hints.reverse}],panic"
    go (o.slice.len + 2) it [] []
  | _ => "panic"

def txOutsF (v : TxOutsV) : String :=
  s!"v={sl v.slice},n={v.n},empty={rs boolS (firstIsZero v.slice)},iter={iterF v}"
def witnessF (v : WitnessV) : String := s!"v={sl v.slice},empty={rs boolS (firstIsZero v.slice)}"
def witnessesF (v : WitnessesV) : String := s!"v={sl v.slice},allempty={boolS v.allEmpty}"

def preF (p : Slice × Slice × Slice) : String :=
  let part (s : Slice) := if s.len = 0 then "@+0" else sl s
  s!"{part p.1}|{part p.2.1}|{part p.2.2}"

/-- transaction fields without the hash (used inside events) -/
def txF (v : TxV) : String :=
  s!"v={sl v.slice},ver={rs toString v.version},lock={rs toString v.locktime},pre={rs preF v.txidPreimage},w={rs toString v.weight}"
def txFH (v : TxV) : String := s!"{txF v},txid={rs toHex v.txid}"

def headerF (h : HeaderV) : String :=
  s!"v={sl h.slice},ver={h.version},prev={rs sl h.prevBlockhash},merkle={rs sl h.merkleRoot},time={h.time},nonce={h.nonce}"
def headerFH (h : HeaderV) : String := s!"{headerF h},hash={toHex h.blockHash}"
def blockFH (b : BlockV) : String := s!"v={sl b.slice},total={b.totalTxs},hdr=({headerF b.header}),hash={toHex b.blockHash}"

def eventS : Event → String
  | .blockHeader h => s!"hdr({headerFH h})"
  | .blockBegin n => s!"bb({n})"
  | .transaction t => s!"tx({txFH t})"
  | .txIns n => s!"ins({n})"
  | .txIn i v => s!"in({i};{txInF v})"
  | .txOuts n => s!"outs({n})"
  | .txOut i v => s!"out({i};{txOutF v})"
  | .witness i => s!"w({i})"
  | .witnessTotal n => s!"wt({n})"
  | .witnessElement i e => s!"we({i};{sl e})"
  | .witnessEnd => "wend"

def eventsS (l : List Event) : String :=
  if l.isEmpty then "-" else "|".intercalate (l.reverse.map eventS)

/-- run a visit under policy `n` (record, never break) or `b<k>` (break at the k-th breakable call) -/
def runVisit {α} (policy : String) (m : ∀ σ, VM σ (α × Slice)) (f : α → String) : String :=
  let (evs, r) : List Event × Res (α × Slice) :=
    if policy == "n" then
      let (st, r) := m _ recorder []
      (st, r)
    else
      let k := (policy.drop 1).toString.toNat!
      let (st, r) := m _ (breakAt k) ([], 0)
      (st.1, r)
  match r with
  | .ok (a, rem) => s!"visit r=ok obj=({f a}) rem={sl rem} ev={eventsS evs}"
  | .err e => s!"visit r=err:{errName e} ev={eventsS evs}"
  | .panic _ => s!"visit r=panic ev={eventsS evs}"

/-- the same, from the L2 reference decoder: replay its callback sequence to the visitor -/
def runVisit2 {α} (policy : String) (d : Spec.D (α × Slice)) (f : α → String) : String :=
  let (evs, r) : List Event × Res (α × Slice) :=
    if policy == "n" then
      let (st, r) := d.run recorder []
      (st, r)
    else
      let k := (policy.drop 1).toString.toNat!
      let (st, r) := d.run (breakAt k) ([], 0)
      (st.1, r)
  match r with
  | .ok (a, rem) => s!"visit r=ok obj=({f a}) rem={sl rem} ev={eventsS evs}"
  | .err e => s!"visit r=err:{errName e} ev={eventsS evs}"
  | .panic _ => s!"visit r=panic ev={eventsS evs}"

def runParse {α} (r : Res (α × Slice)) (f : α → String) : String :=
  match r with
  | .ok (a, rem) => s!"visit r=ok obj=({f a}) rem={sl rem} ev=-"
  | .err e => s!"visit r=err:{errName e} ev=-"
  | .panic _ => "visit r=panic ev=-"

def numWidth : String → Option Nat
  | "u8" => some 1 | "u16" => some 2 | "u32" => some 4 | "i32" => some 4 | "u64" => some 8
  | _ => none

def lenS (l : Res LenV) : String :=
  match l with
  | .ok l => s!"ok:{l.n},{l.consumed},{rs toString l.sliceLen}"
  | .err e => "err:" ++ errName e
  | .panic _ => "panic"

def toLenS (ty : String) (w : Nat) (v : NumV) : String :=
  if ty == "u16" || ty == "u32" || ty == "u64" then lenS (Num.toLen w v) else "-"

def valS (ty : String) (n : Nat) : String := if ty == "i32" then toString (toI32 n) else toString n

def cacheState (c : Cache Nat) : String :=
  let (fp, full, rs) := c.layout
  let r := rs.map fun
    | some r => s!"{r.begin_}-{r.end_}"
    | none => "?"
  s!"{fp},{boolS full},[{";".intercalate r}]"

def visit2 (ty policy : String) (s : Slice) : String :=
  let lift {α} (r : Res α) : Spec.D α := Spec.D.lift r
  if ty == "script" then runVisit2 policy (lift (Spec.decScript s)) scriptF
  else if ty == "outpoint" then runVisit2 policy (lift (Spec.decOutPoint s)) outPointF
  else if ty == "txin" then runVisit2 policy (lift (Spec.decTxIn s)) txInF
  else if ty == "txout" then runVisit2 policy (lift (Spec.decTxOut s)) txOutF
  else if ty == "txins" then runVisit2 policy (Spec.decTxIns s) txInsF
  else if ty == "txouts" then runVisit2 policy (Spec.decTxOuts s) txOutsF
  else if ty == "witness" then
    runVisit2 policy (do let (w, _, r) ← Spec.decWitness s; pure (w, r)) witnessF
  else if ty.startsWith "witnesses:" then
    let n := (ty.drop 10).toString.toNat!
    runVisit2 policy (Spec.decWitnesses s n) witnessesF
  else if ty == "tx" then runVisit2 policy (Spec.decTransaction s) txFH
  else if ty == "header" then runVisit2 policy (Spec.decHeader s) headerFH
  else if ty == "block" then runVisit2 policy (Spec.decBlock s) blockFH
  else "bad-op"

def step (useL2 : Bool) (c : Cache Nat) (line : String) : Cache Nat × String :=
  let toks := (line.trimAscii.toString.splitOn " ").filter (· ≠ "")
  match toks with
  | ["scan", h, ctr] =>
    match fromHex h, ctr.toNat? with
    | some b, some k =>
      let (r, c') := scanLen ⟨0, b⟩ k
      (c, s!"scan r={rs toString r} c={c'}")
    | _, _ => (c, "bad-op")
  | ["plen", h] =>
    match fromHex h with
    | some b => (c, s!"plen r={lenS (parseLen ⟨0, b⟩)}")
    | none => (c, "bad-op")
  | ["num", ty, h] =>
    match numWidth ty, fromHex h with
    | some w, some b =>
      let p := match Num.parse w ⟨0, b⟩ with
        | .ok (v, rem) => s!"ok:{valS ty (Num.value v)},asref={toHex (Num.asRef v)},rem={sl rem},tolen={toLenS ty w v}"
        | .err e => "err:" ++ errName e
        | .panic _ => "panic"
      let r := match Num.read w ⟨0, b⟩ with
        | .ok n => s!"ok:{valS ty n}"
        | .err e => "err:" ++ errName e
        | .panic _ => "panic"
      (c, s!"num p={p} read={r}")
    | _, _ => (c, "bad-op")
  | ["wrap", ty, v] =>
    match numWidth ty, v.toInt? with
    | some w, some i =>
      let n := if ty == "i32" then ofI32 i else i.toNat
      let x := Num.wrap w n
      (c, s!"wrap asref={toHex (Num.asRef x)} back={valS ty (Num.value x)} tolen={toLenS ty w x}")
    | _, _ => (c, "bad-op")
  | ["rslice", h, n] =>
    match fromHex h, n.toNat? with
    | some b, some k =>
      match (⟨0, b⟩ : Slice).splitAtChecked k with
      | .ok (p, rem) => (c, s!"rslice r=ok:{sl p},rem={sl rem}")
      | .err e => (c, s!"rslice r=err:{errName e}")
      | .panic _ => (c, "rslice r=panic")
    | _, _ => (c, "bad-op")
  | ["visit", ty, policy, h] =>
    match fromHex h with
    | none => (c, "bad-op")
    | some b =>
      let s : Slice := ⟨0, b⟩
      let out :=
        if useL2 then visit2 ty policy s
        else if ty == "script" then runParse (Script.parse s) scriptF
        else if ty == "outpoint" then runParse (OutPoint.parse s) outPointF
        else if ty == "txin" then runParse (TxIn.parse s) txInF
        else if ty == "txout" then runParse (TxOut.parse s) txOutF
        else if ty == "txins" then runVisit policy (fun _ => TxIns.visit s) txInsF
        else if ty == "txouts" then runVisit policy (fun _ => TxOuts.visit s) txOutsF
        else if ty == "witness" then runVisit policy (fun _ => Witness.visit s) witnessF
        else if ty.startsWith "witnesses:" then
          let n := (ty.drop 10).toString.toNat!
          runVisit policy (fun _ => Witnesses.visit s n) witnessesF
        else if ty == "tx" then runVisit policy (fun _ => Transaction.visit s) txFH
        else if ty == "header" then runVisit policy (fun _ => BlockHeader.visit s) headerFH
        else if ty == "block" then runVisit policy (fun _ => Block.visit s) blockFH
        else "bad-op"
      (c, out)
  | ["find", id, h] =>
    match fromHex id, fromHex h with
    | some id, some b =>
      let (st, r) := Block.visit (σ := FindSt) ⟨0, b⟩ findVisitor ⟨id, none, false⟩
      let found := match st.found with
        | some bytes =>
          -- the id of what was found, recomputed from its bytes by the model's own parser
          let id := match parseOf (Transaction.visit (⟨0, bytes⟩ : Slice)) with
            | .ok (t, _) => rs toHex t.txid
            | _ => "unparsed"
          s!"{bytes.length}:{id}"
        | none => "none"
      (c, s!"find r={if st.panicked then "panic" else resHead r} found={found}")
    | _, _ => (c, "bad-op")
  | ["redb", ty, h] =>
    match fromHex h with
    | none => (c, "bad-op")
    | some b =>
      let s : Slice := ⟨0, b⟩
      let out :=
        if ty == "outpoint" then
          match OutPoint.parse s with
          | .ok (o, _) => s!"redb r=ok obj=({outPointF (Redb.outPointFromBytes ⟨0, o.slice.bytes⟩)}) fw=36"
          | _ => "redb r=unparsed"
        else if ty == "txout" then
          match TxOut.parse s with
          | .ok (o, _) => s!"redb r={rs (fun x => "ok obj=(" ++ txOutF x ++ ")") (Redb.txOutFromBytes ⟨0, o.slice.bytes⟩)} fw=none"
          | _ => "redb r=unparsed"
        else if ty == "txouts" then
          match parseOf (TxOuts.visit s) with
          | .ok (o, _) => s!"redb r={rs (fun x => "ok obj=(" ++ txOutsF x ++ ")") (Redb.txOutsFromBytes ⟨0, o.slice.bytes⟩)} fw=none"
          | _ => "redb r=unparsed"
        else if ty == "tx" then
          match parseOf (Transaction.visit s) with
          | .ok (o, _) => s!"redb r={rs (fun x => "ok obj=(" ++ txFH x ++ ")") (Redb.txFromBytes ⟨0, o.slice.bytes⟩)} fw=none"
          | _ => "redb r=unparsed"
        else "bad-op"
      (c, out)
  | ["redbraw", "txouts", h] =>
    -- `from_bytes` applied to stored bytes directly (for an output list only the count is re-read)
    match fromHex h with
    | some b =>
      match Redb.txOutsFromBytes ⟨0, b⟩ with
      | .ok o => (c, s!"redbraw r=ok n={o.n} v={sl o.slice}")
      | _ => (c, "redbraw r=panic")
    | none => (c, "bad-op")
  | ["cmp", a, b] =>
    match fromHex a, fromHex b with
    | some a, some b =>
      let o := match lexCmp a b with
        | .lt => "lt" | .eq => "eq" | .gt => "gt"
      (c, s!"cmp r={o}")
    | _, _ => (c, "bad-op")
  | ["cnew", n] =>
    match n.toNat? with
    | some n => (Cache.new n, s!"cnew st={cacheState (Cache.new n)}")
    | none => (c, "bad-op")
  | ["cins", k, h] =>
    match k.toNat?, fromHex h with
    | some k, some b =>
      let (c', r) := c.insert k b
      let rs := match r with
        | .ok n => s!"ok:{n}"
        | .valueAlreadyPresent => "present"
        | .valueLargerThanBuffer => "toolarge"
        | .panic _ => "panic"
      (c', s!"cins r={rs} st={cacheState c'} len={c'.len} full={boolS c'.full}")
    | _, _ => (c, "bad-op")
  | ["cget", k] =>
    match k.toNat? with
    | some k =>
      let g := match c.get k with
        | .ok (some b) => "some:" ++ (if b.isEmpty then "-" else toHex b)
        | .ok none => "none"
        | _ => "panic"
      (c, s!"cget r={g} has={rs boolS (c.contains k)}")
    | none => (c, "bad-op")
  | _ => (c, "bad-op")

partial def loop (useL2 : Bool) (h : IO.FS.Stream) (out : IO.FS.Stream) (c : Cache Nat) : IO Unit := do
  let line ← h.getLine
  if line.isEmpty then return ()
  let t := line.trimAscii.toString
  if t.isEmpty || t.startsWith "#" then
    loop useL2 h out c
  else
    let (c', o) := step useL2 c t
    out.putStrLn o
    loop useL2 h out c'

end BS.Driver

def main (args : List String) : IO Unit := do
  let out ← IO.getStdout
  BS.Driver.loop (args.contains "l2") (← IO.getStdin) out (BS.Cache.new 0)
