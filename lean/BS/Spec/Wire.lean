import BS.Impl.Basic
/-
  L2: the Bitcoin wire format as abstract syntax with a canonical encoder. This file is the definition of
  "well-formed consensus wire encoding" used by the property theorems; it is import-free and executable.
-/
namespace BS.Spec
open BS

/-- the unique minimal compact-size encoding of `n` (1, 3, 5 or 9 bytes by magnitude) -/
def encCompact (n : Nat) : Bytes :=
  if n < 0xFD then [UInt8.ofNat n]
  else if n < 0x10000 then 0xFD :: toLE 2 n
  else if n < 0x100000000 then 0xFE :: toLE 4 n
  else 0xFF :: toLE 8 n

/-- width of the minimal encoding -/
def compactWidth (n : Nat) : Nat :=
  if n < 0xFD then 1 else if n < 0x10000 then 3 else if n < 0x100000000 then 5 else 9

/-- a wider-than-minimal compact size: marker `0xFD/0xFE/0xFF` followed by a payload below the marker's minimum -/
def NonMinimalCompact (b : Bytes) : Prop :=
  (∃ p, p.length = 2 ∧ leN p < 0xFD ∧ b = 0xFD :: p) ∨
  (∃ p, p.length = 4 ∧ leN p < 0x10000 ∧ b = 0xFE :: p) ∨
  (∃ p, p.length = 8 ∧ leN p < 0x100000000 ∧ b = 0xFF :: p)

/-- a script / witness element with its length prefix -/
def encVarBytes (s : Bytes) : Bytes := encCompact s.length ++ s

structure OutPointS where
  txid : Bytes      -- 32 bytes
  vout : Nat
  deriving DecidableEq, Repr

structure TxInS where
  prevout : OutPointS
  scriptSig : Bytes
  sequence : Nat
  deriving DecidableEq, Repr

structure TxOutS where
  value : Nat
  scriptPubkey : Bytes
  deriving DecidableEq, Repr

/-- a transaction; `witnesses = none` is the legacy form, `some ws` the BIP144 form (one witness per input) -/
structure TxS where
  version : Int
  inputs : List TxInS
  outputs : List TxOutS
  witnesses : Option (List (List Bytes))
  lockTime : Nat
  deriving DecidableEq, Repr

structure HeaderS where
  version : Int
  prevBlockhash : Bytes   -- 32
  merkleRoot : Bytes      -- 32
  time : Nat
  bits : Nat
  nonce : Nat
  deriving DecidableEq, Repr

structure BlockS where
  header : HeaderS
  txs : List TxS
  deriving DecidableEq, Repr

def encOutPoint (o : OutPointS) : Bytes := o.txid ++ toLE 4 o.vout
def encTxIn (i : TxInS) : Bytes := encOutPoint i.prevout ++ encVarBytes i.scriptSig ++ toLE 4 i.sequence
def encTxOut (o : TxOutS) : Bytes := toLE 8 o.value ++ encVarBytes o.scriptPubkey
def encTxIns (l : List TxInS) : Bytes := encCompact l.length ++ (l.map encTxIn).flatten
def encTxOuts (l : List TxOutS) : Bytes := encCompact l.length ++ (l.map encTxOut).flatten
def encWitness (w : List Bytes) : Bytes := encCompact w.length ++ (w.map encVarBytes).flatten
def encWitnesses (ws : List (List Bytes)) : Bytes := (ws.map encWitness).flatten

/-- witness-stripped serialization: version, inputs, outputs, lock time -/
def encStripped (t : TxS) : Bytes :=
  toLE 4 (ofI32 t.version) ++ encTxIns t.inputs ++ encTxOuts t.outputs ++ toLE 4 t.lockTime

def encTx (t : TxS) : Bytes :=
  match t.witnesses with
  | none => encStripped t
  | some ws =>
    toLE 4 (ofI32 t.version) ++ [0x00, 0x01] ++ encTxIns t.inputs ++ encTxOuts t.outputs ++
      encWitnesses ws ++ toLE 4 t.lockTime

def encHeader (h : HeaderS) : Bytes :=
  toLE 4 (ofI32 h.version) ++ h.prevBlockhash ++ h.merkleRoot ++ toLE 4 h.time ++ toLE 4 h.bits ++ toLE 4 h.nonce

def encBlock (b : BlockS) : Bytes := encHeader b.header ++ encCompact b.txs.length ++ (b.txs.map encTx).flatten

/-! well-formedness: every scalar fits its width, every count fits 64 bits -/
def OutPointS.WF (o : OutPointS) : Prop := o.txid.length = 32 ∧ o.vout < 2 ^ 32
def TxInS.WF (i : TxInS) : Prop := i.prevout.WF ∧ i.scriptSig.length < 2 ^ 64 ∧ i.sequence < 2 ^ 32
def TxOutS.WF (o : TxOutS) : Prop := o.value < 2 ^ 64 ∧ o.scriptPubkey.length < 2 ^ 64
def witnessWF (w : List Bytes) : Prop := w.length < 2 ^ 64 ∧ ∀ e ∈ w, e.length < 2 ^ 64
/-- legacy form needs at least one input (a zero count would read as the segwit marker); the segwit form has one
    witness per input and, when it has inputs, at least one non-empty witness -/
def TxS.WF (t : TxS) : Prop :=
  -(2 : Int) ^ 31 ≤ t.version ∧ t.version < 2 ^ 31 ∧ t.lockTime < 2 ^ 32 ∧
  t.inputs.length < 2 ^ 64 ∧ t.outputs.length < 2 ^ 64 ∧
  (∀ i ∈ t.inputs, i.WF) ∧ (∀ o ∈ t.outputs, o.WF) ∧
  match t.witnesses with
  | none => t.inputs ≠ []
  | some ws => ws.length = t.inputs.length ∧ (∀ w ∈ ws, witnessWF w) ∧ (t.inputs ≠ [] → ∃ w ∈ ws, w ≠ [])
def HeaderS.WF (h : HeaderS) : Prop :=
  -(2 : Int) ^ 31 ≤ h.version ∧ h.version < 2 ^ 31 ∧ h.prevBlockhash.length = 32 ∧ h.merkleRoot.length = 32 ∧
  h.time < 2 ^ 32 ∧ h.bits < 2 ^ 32 ∧ h.nonce < 2 ^ 32
def BlockS.WF (b : BlockS) : Prop := b.header.WF ∧ b.txs.length < 2 ^ 64 ∧ ∀ t ∈ b.txs, t.WF

end BS.Spec
