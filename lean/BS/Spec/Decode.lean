import BS.Impl.Visit
import BS.Spec.Wire
/-
  L2: reference decoders in plain remainder-passing style. Every decoder takes the slice it has not consumed yet and
  returns what it decoded, the remaining slice, and the callbacks it makes (in order). No counters, no indexing, no
  overflow: nothing here can panic. The views it returns are built from the input by `take`/`drop` only.
  L2 is the specification the L1 model is proved to refine (BS/Lemmas/Refine*.lean) and it is executable (the driver
  cross-checks it against L1 and, through the harness, against rust-bitcoin).
-/
namespace BS.Spec
open BS

/-- a decoder run: the callbacks made, in order, and the result -/
structure D (α : Type) where
  trace : List Event
  res : Res α

namespace D
variable {α β : Type}
@[inline] def pure' (a : α) : D α := ⟨[], .ok a⟩
@[inline] def bind' (m : D α) (f : α → D β) : D β :=
  match m.res with
  | .ok a => let r := f a; ⟨m.trace ++ r.trace, r.res⟩
  | .err e => ⟨m.trace, .err e⟩
  | .panic p => ⟨m.trace, .panic p⟩
instance : Monad D where
  pure := pure'
  bind := bind'
@[inline] def lift (r : Res α) : D α := ⟨[], r⟩
@[inline] def emit (e : Event) : D Unit := ⟨[e], .ok ()⟩
end D

/-- feed a callback sequence to a visitor: stop at the first `Break` returned from a breakable callback and answer
    `VisitBreak`; otherwise answer `r` -/
def replay {σ α : Type} (v : Visitor σ) : σ → List Event → Res α → σ × Res α
  | st, [], r => (st, r)
  | st, e :: es, r =>
    let x := v.step st e
    if e.breakable && x.2 then (x.1, .err .visitBreak) else replay v x.1 es r

/-- what a visitor sees of a decoder run -/
def D.run {σ α : Type} (d : D α) (v : Visitor σ) (st : σ) : σ × Res α := replay v st d.trace d.res

/-- the part of `s` in front of the remainder `rem` (a suffix of `s`) -/
def viewOf (s rem : Slice) : Slice := ⟨s.base, s.bytes.take (s.len - rem.len)⟩

/-- the first `n` bytes and the rest; `MoreBytesNeeded` when there are fewer -/
def takeN (s : Slice) (n : Nat) : Res (Slice × Slice) :=
  if s.len < n then .err .moreBytesNeeded
  else .ok (⟨s.base, s.bytes.take n⟩, ⟨s.base + n, s.bytes.drop n⟩)

/-- a `w`-byte little-endian integer -/
def decLE (w : Nat) (s : Slice) : Res (Nat × Slice) :=
  match takeN s w with
  | .ok (p, r) => .ok (leN p.bytes, r)
  | .err e => .err e
  | .panic p => .panic p

/-- canonical compact size -/
def decCompact (s : Slice) : Res (Nat × Slice) :=
  match s.bytes with
  | [] => .err .moreBytesNeeded
  | x :: _ =>
    let wide (w min : Nat) : Res (Nat × Slice) :=
      match decLE w ⟨s.base + 1, s.bytes.drop 1⟩ with
      | .ok (n, r) => if n ≥ min then .ok (n, r) else .err .nonMinimalVarInt
      | .err e => .err e
      | .panic p => .panic p
    if x = 0xFF then wide 8 0x100000000
    else if x = 0xFE then wide 4 0x10000
    else if x = 0xFD then wide 2 0xFD
    else .ok (x.toNat, ⟨s.base + 1, s.bytes.drop 1⟩)

def decScript (s : Slice) : Res (ScriptV × Slice) := do
  let (n, r) ← decCompact s
  let (_, rem) ← takeN r n
  pure (⟨viewOf s rem, s.len - r.len⟩, rem)

def decOutPoint (s : Slice) : Res (OutPointV × Slice) := do
  let (p, rem) ← takeN s 36
  pure (⟨p⟩, rem)

def decTxIn (s : Slice) : Res (TxInV × Slice) := do
  let (op, r1) ← decOutPoint s
  let (script, r2) ← decScript r1
  let (seq, rem) ← decLE 4 r2
  pure (⟨viewOf s rem, op, script, seq⟩, rem)

def decTxOut (s : Slice) : Res (TxOutV × Slice) := do
  let (value, r1) ← decLE 8 s
  let (script, rem) ← decScript r1
  pure (⟨viewOf s rem, value, script⟩, rem)

def decTxInsLoop : (n i : Nat) → Slice → D Slice
  | 0, _, s => pure s
  | n + 1, i, s => do
    let (x, r) ← D.lift (decTxIn s)
    D.emit (.txIn i x)
    decTxInsLoop n (i + 1) r

def decTxIns (s : Slice) : D (TxInsV × Slice) := do
  let (n, r) ← D.lift (decCompact s)
  D.emit (.txIns n)
  let rem ← decTxInsLoop n 0 r
  pure (⟨viewOf s rem, n⟩, rem)

def decTxOutsLoop : (n i : Nat) → Slice → D Slice
  | 0, _, s => pure s
  | n + 1, i, s => do
    let (x, r) ← D.lift (decTxOut s)
    D.emit (.txOut i x)
    decTxOutsLoop n (i + 1) r

def decTxOuts (s : Slice) : D (TxOutsV × Slice) := do
  let (n, r) ← D.lift (decCompact s)
  D.emit (.txOuts n)
  let rem ← decTxOutsLoop n 0 r
  pure (⟨viewOf s rem, n⟩, rem)

def decWitnessLoop : (n i : Nat) → Slice → D Slice
  | 0, _, s => pure s
  | n + 1, i, s => do
    let (len, r) ← D.lift (decCompact s)
    let (el, r') ← D.lift (takeN r len)
    D.emit (.witnessElement i el)
    decWitnessLoop n (i + 1) r'

/-- one witness; also says whether it has no elements -/
def decWitness (s : Slice) : D (WitnessV × Bool × Slice) := do
  let (n, r) ← D.lift (decCompact s)
  D.emit (.witnessTotal n)
  let rem ← decWitnessLoop n 0 r
  pure (⟨viewOf s rem⟩, n == 0, rem)

def decWitnessesLoop : (n i : Nat) → Slice → Bool → D (Slice × Bool)
  | 0, _, s, allEmpty => pure (s, allEmpty)
  | n + 1, i, s, allEmpty => do
    D.emit (.witness i)
    let (_, empty, r) ← decWitness s
    D.emit .witnessEnd
    decWitnessesLoop n (i + 1) r (allEmpty && empty)

def decWitnesses (s : Slice) (totalInputs : Nat) : D (WitnessesV × Slice) := do
  let (rem, allEmpty) ← decWitnessesLoop totalInputs 0 s true
  pure (⟨viewOf s rem, allEmpty⟩, rem)

def decTransaction (s : Slice) : D (TxV × Slice) := do
  let (_version, s4) ← D.lift (decLE 4 s)
  let (inputs, r) ← decTxIns s4
  if inputs.n = 0 then
    let (flag, r1) ← D.lift (decLE 1 r)
    if flag = 1 then
      let (inputs, r2) ← decTxIns r1
      let (outputs, r3) ← decTxOuts r2
      let (witnesses, r4) ← decWitnesses r3 inputs.n
      if inputs.n ≠ 0 ∧ witnesses.allEmpty = true then
        D.lift (.err .segwitFlagWithoutWitnesses)
      else
        let (_lock, rem) ← D.lift (decLE 4 r4)
        let tx : TxV := ⟨viewOf s rem, some (inputs.slice.len + outputs.slice.len)⟩
        D.emit (.transaction tx)
        pure (tx, rem)
    else
      D.lift (.err (.unknownSegwitFlag (UInt8.ofNat flag)))
  else
    let (_outputs, r1) ← decTxOuts r
    let (_lock, rem) ← D.lift (decLE 4 r1)
    let tx : TxV := ⟨viewOf s rem, none⟩
    D.emit (.transaction tx)
    pure (tx, rem)

def decHeader (s : Slice) : D (HeaderV × Slice) := do
  let (p, rem) ← D.lift (takeN s 80)
  let b := p.bytes
  let h : HeaderV := ⟨p, toI32 (leN (b.take 4)), leN ((b.drop 68).take 4), leN ((b.drop 72).take 4), leN ((b.drop 76).take 4)⟩
  D.emit (.blockHeader h)
  pure (h, rem)

def decBlockLoop : (n : Nat) → Slice → D Slice
  | 0, s => pure s
  | n + 1, s => do
    let (_, r) ← decTransaction s
    decBlockLoop n r

def decBlock (s : Slice) : D (BlockV × Slice) := do
  let (header, r) ← decHeader s
  let (n, r1) ← D.lift (decCompact r)
  D.emit (.blockBegin n)
  let rem ← decBlockLoop n r1
  pure (⟨viewOf s rem, header, n⟩, rem)

end BS.Spec
