import BS.Impl.Basic
import BS.Impl.Num
import BS.Impl.Visit
import BS.Impl.Parse
import BS.Impl.Extra
import BS.Impl.Cache
