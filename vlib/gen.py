"""Generator families for the correspondence runs (DESIGN §4.2). Every random choice comes from one
random.Random seeded by VERIF_SEED, so an ops file is reproducible from (family, seed, tier)."""
import itertools
import random
import struct

ALPHABET = [0x00, 0x01, 0x02, 0x24, 0xFC, 0xFD, 0xFE, 0xFF]


def hx(b):
    return b.hex() if len(b) else "-"


def cs(n):
    """canonical compact size"""
    if n < 0xFD:
        return bytes([n])
    if n <= 0xFFFF:
        return b"\xfd" + struct.pack("<H", n)
    if n <= 0xFFFFFFFF:
        return b"\xfe" + struct.pack("<I", n)
    return b"\xff" + struct.pack("<Q", n)


def cs_nonminimal(n):
    """every wider-than-minimal encoding of n"""
    out = []
    if n < 0xFD:
        out.append(b"\xfd" + struct.pack("<H", n))
    if n <= 0xFFFF:
        out.append(b"\xfe" + struct.pack("<I", n))
    if n <= 0xFFFFFFFF:
        out.append(b"\xff" + struct.pack("<Q", n))
    return out


class Pat:
    """asymmetric filler: every byte differs from its neighbours so offset / endianness mistakes show"""

    def __init__(self, start=1):
        self.c = start

    def take(self, n):
        out = bytes(((self.c + i) * 7 + ((self.c + i) >> 3)) % 251 + 1 for i in range(n))
        self.c += n
        return out


# ----------------------------------------------------------------------------- abstract syntax -> wire
class Tx:
    def __init__(self, version, ins, outs, wits, locktime, segwit):
        self.version, self.ins, self.outs, self.wits, self.locktime, self.segwit = version, ins, outs, wits, locktime, segwit

    def parts(self):
        """list of (kind, bytes) so that corruptions can address every compact-size position"""
        p = [("ver", struct.pack("<i", self.version))]
        if self.segwit:
            p.append(("marker", b"\x00"))
            p.append(("flag", b"\x01"))
        p.append(("cs", cs(len(self.ins))))
        for (txid, vout, script, seq) in self.ins:
            p.append(("raw", txid + struct.pack("<I", vout)))
            p.append(("cs", cs(len(script))))
            p.append(("raw", script))
            p.append(("raw", struct.pack("<I", seq)))
        p.append(("cs", cs(len(self.outs))))
        for (value, script) in self.outs:
            p.append(("raw", struct.pack("<Q", value)))
            p.append(("cs", cs(len(script))))
            p.append(("raw", script))
        if self.segwit:
            for w in self.wits:
                p.append(("cs", cs(len(w))))
                for e in w:
                    p.append(("cs", cs(len(e))))
                    p.append(("raw", e))
        p.append(("lock", struct.pack("<I", self.locktime)))
        return p

    def enc(self):
        return b"".join(b for _, b in self.parts())


def mk_tx(pat, n_in, n_out, script_lens, wit_shape, segwit, version=2, locktime=0x01020304):
    ins = []
    for i in range(n_in):
        sl = script_lens[i % len(script_lens)]
        ins.append((pat.take(32), 0x0A0B0C00 + i, pat.take(sl), 0xF1F2F300 + i))
    outs = []
    for i in range(n_out):
        sl = script_lens[(i + 1) % len(script_lens)]
        outs.append((0x0102030405060700 + i, pat.take(sl)))
    wits = []
    if segwit:
        for i in range(n_in):
            if wit_shape == "allempty":
                wits.append([])
            elif wit_shape == "oneempty":
                wits.append([b""])
            elif wit_shape == "one":
                wits.append([pat.take(3 + i)])
            elif wit_shape == "lastonly":
                wits.append([pat.take(2)] if i == n_in - 1 else [])
            else:  # mixed
                wits.append([pat.take(1), b"", pat.take(script_lens[i % len(script_lens)] % 300)] if i % 2 == 0 else [])
    return Tx(version, ins, outs, wits, locktime, segwit)


def header(pat, version=0x20000004):
    return struct.pack("<i", version) + pat.take(32) + pat.take(32) + struct.pack("<III", 0x5F5E1001, 0x1D00FFFF, 0x7C2BAC1D)


def corruptions(parts):
    """single-defect corruptions of a structure given as parts: yields (name, bytes)"""
    for i, (kind, b) in enumerate(parts):
        pre = b"".join(x for _, x in parts[:i])
        post = b"".join(x for _, x in parts[i + 1:])
        if kind == "cs":
            n = int.from_bytes(b[1:], "little") if b[0] >= 0xFD else b[0]
            for alt in cs_nonminimal(n):
                yield (f"nonmin@{i}", pre + alt + post)
            yield (f"plus1@{i}", pre + cs(n + 1) + post)
            if n > 0:
                yield (f"minus1@{i}", pre + cs(n - 1) + post)
            yield (f"fdffff@{i}", pre + b"\xfd\xff\xff" + post)
            yield (f"feffffffff@{i}", pre + b"\xfe\xff\xff\xff\xff" + post)
            yield (f"ff8@{i}", pre + b"\xff" + b"\xff" * 8 + post)
        elif kind == "marker":
            for v in (1, 2, 0xFF):
                yield (f"marker{v}@{i}", pre + bytes([v]) + post)
        elif kind == "flag":
            for v in (0, 2, 0xFF):
                yield (f"flag{v}@{i}", pre + bytes([v]) + post)
        elif kind in ("ver", "lock"):
            yield (f"flip-{kind}", pre + bytes([b[0] ^ 0x80]) + b[1:-1] + bytes([b[-1] ^ 1]) + post)


def truncation_points(n, dense):
    if n <= dense:
        return list(range(n))
    pts = set(range(0, 48)) | set(range(n - 48, n))
    step = max(1, n // 64)
    pts |= set(range(0, n, step))
    return sorted(p for p in pts if 0 <= p < n)


_K01 = b'\x01'
_K0700 = b'\x07\x00'
_K55 = b'\x55'
_K9897 = b'\x98\x97'
_K99 = b'\x99'

TRAILS = [b"", b"\x00", b"\x01\x00\x00\x00\x01", b"\xff\xfe"]

VISIT_TYPES = ["txins", "txouts", "witness", "tx", "header", "block"]
PARSE_TYPES = ["script", "outpoint", "txin", "txout"]


def ops_for(ty, b, policies=("n",)):
    return [f"visit {ty} {p} {hx(b)}" for p in policies]


def n_breakable(ty, obj_events_hint):
    return obj_events_hint


# ----------------------------------------------------------------------------- families
def fam_exh(tier):
    """P-exh: every byte string over the boundary alphabet up to a length bound, for the leaf entry points"""
    L = 4 if tier == "quick" else 5
    ops = []
    outpoint = bytes(range(1, 37))
    for l in range(0, L + 1):
        for t in itertools.product(ALPHABET, repeat=l):
            b = bytes(t)
            h = hx(b)
            ops.append(f"scan {h} 0")
            ops.append(f"plen {h}")
            ops.append(f"visit script n {h}")
            ops.append(f"visit witness n {h}")
            if l <= L - 1 or tier != "quick":
                ops.append(f"visit witnesses:2 n {h}")
                ops.append(f"visit txouts n {hx(b[:1] + bytes(8) + b[1:])}")
                ops.append(f"visit txin n {hx(outpoint + b)}")
                ops.append(f"visit txins n {hx(b[:1] + outpoint + b[1:])}")
                ops.append(f"visit txout n {hx(bytes([9, 8, 7, 6, 5, 4, 3, 2]) + b)}")
            if l <= 3:
                for ty in ("u8", "u16", "u32", "i32", "u64"):
                    ops.append(f"num {ty} {h}")
                ops.append(f"rslice {h} {l}")
                ops.append(f"rslice {h} {l + 1}")
                ops.append(f"rslice {h} {max(0, l - 1)}")
    return ops


def fam_cs(tier, rng):
    """P-cs: compact sizes — every 1-byte value, every 3-byte payload, boundary-dense 5- and 9-byte payloads,
    truncations, trailing bytes, counter starts"""
    ops = []
    for x in range(256):
        ops.append(f"scan {bytes([x]).hex()} 0")
        ops.append(f"plen {bytes([x]).hex()}")
    step = 1 if tier == "thorough" else 1
    for p in range(0, 65536, step):
        b = b"\xfd" + struct.pack("<H", p)
        ops.append(f"scan {b.hex()} {p % 7}")
        if p % 16 == 0 or p < 0x200:
            ops.append(f"plen {b.hex()}")
    vals5 = set()
    vals9 = set()
    for k in range(0, 65):
        for d in (-2, -1, 0, 1, 2):
            v = (1 << k) + d
            if 0 <= v < (1 << 32):
                vals5.add(v)
            if 0 <= v < (1 << 64):
                vals9.add(v)
    for t in (0xFC, 0xFD, 0xFFFF, 0x10000, 0xFFFFFFFF, 0x100000000):
        for d in (-1, 0, 1):
            vals5.add((t + d) % (1 << 32))
            vals9.add(t + d)
    n_rand = 20000 if tier == "quick" else 200000
    for _ in range(n_rand):
        vals5.add(rng.getrandbits(32))
        vals9.add(rng.getrandbits(64))
        vals9.add(rng.getrandbits(rng.randrange(1, 65)))
    starts = [0, 1, (1 << 62) - 1, (1 << 62) - 9]
    for v in sorted(vals5):
        b = b"\xfe" + struct.pack("<I", v)
        ops.append(f"scan {b.hex()} {starts[v % 4]}")
    for v in sorted(vals9):
        b = b"\xff" + struct.pack("<Q", v)
        ops.append(f"scan {b.hex()} {starts[v % 4]}")
        if v % 3 == 0 or v >= (1 << 63):
            ops.append(f"plen {b.hex()}")
    # truncations and trailing bytes of each form
    for b in (b"\x05", b"\xfd\x34\x12", b"\xfe\x78\x56\x34\x12", b"\xff\x01\x02\x03\x04\x05\x06\x07\x08",
              b"\xfd\xfc\x00", b"\xfe\xff\xff\x00\x00", b"\xff\xff\xff\xff\xff\x00\x00\x00\x00",
              b"\xff" * 9):
        for j in range(len(b) + 1):
            ops.append(f"scan {hx(b[:j])} 3")
            ops.append(f"plen {hx(b[:j])}")
        for t in (b"\x00", b"\xff\xff"):
            ops.append(f"scan {(b + t).hex()} 5")
            ops.append(f"plen {(b + t).hex()}")
    return ops


def fam_num(tier, rng):
    """C18: fixed-width codecs — u8/u16 exhaustive, u32/i32/u64 boundary-dense + random (thorough: denser)"""
    ops = []
    for v in range(256):
        ops.append(f"wrap u8 {v}")
        ops.append(f"num u8 {bytes([v, 0xAA]).hex()}")
    for v in range(65536):
        ops.append(f"wrap u16 {v}")
        if v % 5 == 0 or v < 600:
            ops.append(f"num u16 {struct.pack('<H', v).hex()}{'' if v % 2 else 'bb'}")
    vals = set()
    for k in range(0, 65):
        for d in (-2, -1, 0, 1, 2):
            vals.add((1 << k) + d)
    for t in (0xFC, 0xFD, 0xFFFF, 0x10000, 0xFFFFFFFF, 0x100000000, 0x7FFFFFFF, 0x80000000):
        for d in (-1, 0, 1):
            vals.add(t + d)
    n_rand = 20000 if tier == "quick" else 300000
    for _ in range(n_rand):
        vals.add(rng.getrandbits(rng.randrange(1, 65)))
    for v in sorted(vals):
        if 0 <= v < (1 << 32):
            ops.append(f"wrap u32 {v}")
            ops.append(f"num u32 {struct.pack('<I', v).hex()}cc")
            iv = v - (1 << 32) if v >= (1 << 31) else v
            ops.append(f"wrap i32 {iv}")
            ops.append(f"num i32 {struct.pack('<I', v).hex()}")
        if 0 <= v < (1 << 64):
            ops.append(f"wrap u64 {v}")
            ops.append(f"num u64 {struct.pack('<Q', v).hex()}{'dd' * (v % 3)}")
    for ty, w in (("u8", 1), ("u16", 2), ("u32", 4), ("i32", 4), ("u64", 8)):
        full = bytes(range(0x81, 0x81 + w))
        for j in range(w + 1):
            ops.append(f"num {ty} {hx(full[:j])}")
        # the value followed by 0..20 more bytes: value, width consumed, remainder
        for k in range(0, 21):
            ops.append(f"num {ty} {hx(full + bytes(range(1, k + 1)))}")
    for l in range(0, 6):
        b = bytes(range(1, l + 1))
        for k in range(0, 8):
            ops.append(f"rslice {hx(b)} {k}")
    return ops


def gram_shapes(tier):
    lens = [0, 1, 2, 75, 252, 253, 254] + ([65535, 65536] if tier == "thorough" else [])
    n_range = range(0, 4) if tier == "quick" else range(0, 7)
    shapes = []
    pat = Pat(3)
    for n_in in n_range:
        for n_out in n_range:
            if tier == "quick" and n_in + n_out > 4:
                continue
            if tier == "thorough" and n_in + n_out > 8:
                continue
            li = (n_in * 3 + n_out) % len(lens)
            sl = [lens[li], lens[(li + 2) % len(lens)], lens[(li + 5) % len(lens)]]
            if n_in >= 1:
                shapes.append(mk_tx(pat, n_in, n_out, sl, None, False))
            for ws in ("allempty", "oneempty", "one", "lastonly", "mixed"):
                if n_in == 0 and ws != "allempty":
                    continue
                shapes.append(mk_tx(pat, n_in, n_out, sl, ws, True))
    # negative version, max locktime
    shapes.append(mk_tx(pat, 1, 1, [5], None, False, version=-2, locktime=0xFFFFFFFF))
    shapes.append(mk_tx(pat, 2, 2, [253, 0], "mixed", True, version=-(1 << 31), locktime=0))
    if tier == "thorough":
        shapes.append(mk_tx(pat, 300, 2, [1, 0], "one", True))
        shapes.append(mk_tx(pat, 2, 300, [2, 1], None, False))
    return shapes


def fam_gram(tier, rng, policies=False, corrupt=True, trunc=True):
    """P-gram: transactions, their components, and blocks from the wire grammar; exact, with trailing bytes, at every
    truncation point, with every single-defect corruption; with break policies when `policies`"""
    ops = []
    shapes = gram_shapes(tier)
    dense = 400 if tier == "quick" else 1500
    for si, tx in enumerate(shapes):
        b = tx.enc()
        trail = TRAILS[si % len(TRAILS)]
        ops.append(f"visit tx n {hx(b + trail)}")
        if policies:
            nb = len(tx.ins) + len(tx.outs) + (len(tx.ins) if tx.segwit else 0) + 1
            ks = range(nb + 1) if nb <= 24 else sorted({0, 1, 2, nb // 3, nb // 2, nb - 2, nb - 1, nb, nb + 1,
                                                         len(tx.ins) - 1, len(tx.ins), len(tx.ins) + len(tx.outs) - 1,
                                                         len(tx.ins) + len(tx.outs)})
            for k in ks:
                ops.append(f"visit tx b{k} {hx(b + trail)}")
        # components
        parts = tx.parts()
        if trunc and len(b) <= 3000:
            for j in truncation_points(len(b), dense):
                ops.append(f"visit tx n {hx(b[:j])}")
        if corrupt and len(b) <= 3000:
            for name, cb in corruptions(parts):
                ops.append(f"visit tx n {hx(cb)}")
                if policies and si % 3 == 0:
                    ops.append(f"visit tx b{si % 4} {hx(cb)}")
    # components taken from a few shapes
    pat = Pat(11)
    for n in (0, 1, 2, 3) if tier == "quick" else (0, 1, 2, 3, 5, 252, 253):
        for sl in ([0, 1], [75, 2], [252, 253, 254]):
            t = mk_tx(pat, n, n, sl, "mixed", True)
            ins = cs(len(t.ins)) + b"".join(a + struct.pack("<I", v) + cs(len(s)) + s + struct.pack("<I", q) for a, v, s, q in t.ins)
            outs = cs(len(t.outs)) + b"".join(struct.pack("<Q", v) + cs(len(s)) + s for v, s in t.outs)
            wits = b"".join(cs(len(w)) + b"".join(cs(len(e)) + e for e in w) for w in t.wits)
            for ty, bb_, nb in (("txins", ins, n), ("txouts", outs, n), (f"witnesses:{n}", wits, n)):
                if len(bb_) > 4000 and tier == "quick":
                    continue
                ops.append(f"visit {ty} n {hx(bb_ + _K0700)}")
                if policies:
                    for k in range(min(nb, 6) + 1):
                        ops.append(f"visit {ty} b{k} {hx(bb_)}")
                if trunc and len(bb_) <= 1200:
                    for j in truncation_points(len(bb_), 200):
                        ops.append(f"visit {ty} n {hx(bb_[:j])}")
            if wits and n <= 3:
                # wrong declared input counts for Witnesses
                for m in (0, n + 1, n + 5, 2 ** 64 - 1, 2 ** 32):
                    ops.append(f"visit witnesses:{m} n {hx(wits)}")
            for (a, v, s, q) in t.ins[:2]:
                e = a + struct.pack("<I", v) + cs(len(s)) + s + struct.pack("<I", q)
                ops.append(f"visit txin n {hx(e + _K99)}")
                ops.append(f"visit outpoint n {hx(e)}")
                ops.append(f"redb outpoint {hx(e)}")
                for j in truncation_points(len(e), 60):
                    ops.append(f"visit txin n {hx(e[:j])}")
            for (v, s) in t.outs[:2]:
                e = struct.pack("<Q", v) + cs(len(s)) + s
                ops.append(f"visit txout n {hx(e + _K9897)}")
                ops.append(f"visit script n {hx(e[8:])}")
                ops.append(f"redb txout {hx(e)}")
                for j in truncation_points(len(e), 60):
                    ops.append(f"visit txout n {hx(e[:j])}")
            for w in t.wits[:2]:
                e = cs(len(w)) + b"".join(cs(len(x)) + x for x in w)
                ops.append(f"visit witness n {hx(e + _K01)}")
                for j in range(len(e)):
                    ops.append(f"visit witness n {hx(e[:j])}")
            ops.append(f"redb txouts {hx(outs)}")
            ops.append(f"redb tx {hx(t.enc())}")
            # the stored value is the object parsed from a longer buffer (a transaction inside a block, a list inside a
            # transaction): its bytes and its equality with the re-read value must not depend on what followed it
            ops.append(f"redb txouts {hx(outs + _K0700)}")
            ops.append(f"redb tx {hx(t.enc() + _K99)}")
            for (v, sc) in t.outs[:1]:
                ops.append(f"redb txout {hx(struct.pack('<Q', v) + cs(len(sc)) + sc + _K55)}")
            for (a, v, sc, q) in t.ins[:1]:
                ops.append(f"redb outpoint {hx(a + struct.pack('<I', v) + _K01)}")
    # every shape as a stored transaction, exact and followed by other bytes (zero inputs / zero outputs included)
    for si, tx in enumerate(shapes):
        if len(tx.enc()) <= 3000:
            ops.append(f"redb tx {hx(tx.enc())}")
            ops.append(f"redb tx {hx(tx.enc() + TRAILS[(si + 1) % len(TRAILS)])}")
    # blocks
    pat = Pat(29)
    for ntx in range(0, 4) if tier == "quick" else range(0, 5):
        txs = [shapes[(ntx * 7 + i * 5) % min(len(shapes), 40)] for i in range(ntx)]
        hb = header(pat, version=0x20000000 + ntx if ntx != 2 else -5)
        body = hb + cs(ntx) + b"".join(t.enc() for t in txs)
        ops.append(f"visit block n {hx(body + TRAILS[ntx % 4])}")
        ops.append(f"visit header n {hx(hb + _K55)}")
        if policies:
            nb = 1 + sum(len(t.ins) + len(t.outs) + (len(t.ins) if t.segwit else 0) + 1 for t in txs)
            for k in range(min(nb, 40) + 1):
                ops.append(f"visit block b{k} {hx(body)}")
            ops.append(f"visit header b0 {hx(hb)}")
            ops.append(f"visit header b1 {hx(hb)}")
        if trunc and len(body) <= 4000:
            for j in truncation_points(len(body), dense):
                ops.append(f"visit block n {hx(body[:j])}")
            for j in range(0, 81, 3):
                ops.append(f"visit header n {hx(hb[:j])}")
        if corrupt and len(body) <= 4000:
            parts = [("raw", hb), ("cs", cs(ntx))]
            for t in txs:
                parts.extend(t.parts())
            for name, cb in corruptions(parts):
                ops.append(f"visit block n {hx(cb)}")
        # finds: each txid present / absent (ids are computed by the model from the tx bytes: use `visit tx` hash)
    return ops



def fam_bound(tier, rng):
    """P-bound: element counts and lengths exactly at the compact-size thresholds (252/253/254, 65535/65536), tiny
    transactions and blocks of them with and without trailing bytes, compact sizes followed by >= 8 more bytes"""
    ops = []
    pat = Pat(7)
    out9 = lambda i: struct.pack("<Q", 1000 + i) + b"\x00"
    out10 = lambda i: struct.pack("<Q", 1000 + i) + b"\x01" + bytes([i % 251 + 1])
    inp = lambda i: pat.take(32) + struct.pack("<I", i) + b"\x00" + struct.pack("<I", 0xFFFFFF00 + i % 256)
    # (the list-based model is quadratic in the element count: 65535-element lists are out of reach for it; the
    #  65535/65536 thresholds are exercised on lengths, on `scan`, and on `redbraw txouts` instead)
    for n in (252, 253, 254) + ((1000, 4000) if tier == "thorough" else ()):
        outs = cs(n) + b"".join((out9(i) if i % 2 else out10(i)) for i in range(n))
        ops.append(f"visit txouts n {hx(outs)}")
        ops.append(f"visit txouts b{n - 1} {hx(outs)}")
        ops.append(f"redb txouts {hx(outs)}")
        ins = cs(n) + b"".join(inp(i) for i in range(n))
        ops.append(f"visit txins n " + hx(ins + b'\x00'))
        wit = cs(n) + b"".join(cs(i % 3) + bytes([7] * (i % 3)) for i in range(n))
        ops.append(f"visit witness n {hx(wit)}")
        wits = b"".join(b"\x00" if i % 3 else b"\x01\x01\xaa" for i in range(n))
        ops.append(f"visit witnesses:{n} n {hx(wits)}")
        tx = struct.pack("<i", 2) + ins + outs + struct.pack("<I", 7)
        ops.append(f"visit tx n {hx(tx)}")
        if n <= 254:
            # a witness stack of n items inside a transaction (the count prefix changes width at 253)
            tw = Tx(2, [(pat.take(32), 1, b"", 0xFFFFFFFE)], [(9, b"\x51")], [[bytes([i % 7 + 1] * (i % 3)) for i in range(n)]], 11, True)
            ops.append(f"visit tx n {hx(tw.enc())}")
            ops.append(f"visit tx n {hx(tw.enc() + _K99)}")
        # a block of n tiny transactions (12 bytes each: segwit form, no inputs, no outputs)
        tiny = bytes([1, 0, 0, 0, 0, 1, 0, 0, 0, 0, 0, 0])
        blk = header(pat) + cs(n) + tiny * n
        ops.append(f"visit block n {hx(blk)}")
    # script / witness element lengths at the thresholds
    for l in (252, 253, 254, 65535, 65536) if tier == "quick" else (252, 253, 254, 65535, 65536, 65537, 70000):
        body = bytes((i * 13 + 5) % 256 for i in range(l))
        ops.append(f"visit script n " + hx(cs(l) + body + b'\x09'))
        ops.append(f"visit txout n {hx(struct.pack('<Q', 5) + cs(l) + body)}")
        ops.append(f"visit witness n " + hx(cs(3) + cs(1) + b'\x11' + cs(l) + body + cs(2) + b'\x22\x33'))
        ops.append(f"visit witnesses:2 n " + hx(cs(1) + cs(1) + b'\x44' + cs(2) + cs(l) + body + cs(0) + b'\x77'))
        t = Tx(2, [(pat.take(32), 1, b"\x51", 0xFFFFFFFE), (pat.take(32), 0, b"", 5)], [(9, body[:40])],
               [[b"\x01", body], []], 0x11223344, True)
        ops.append(f"visit tx n {hx(t.enc())}")
        ops.append(f"visit tx b3 {hx(t.enc())}")
        t2 = Tx(1, [(pat.take(32), 1, body, 0xFFFFFFFE)], [(9, body)], [], 3, False)
        ops.append(f"visit tx n " + hx(t2.enc() + b'\x00'))
    # every length in the neighbourhood of the two prefix-width thresholds (a width derived from the wrong quantity —
    # total instead of payload length, say — is wrong only a few bytes away from them)
    for l in list(range(249, 259)) + list(range(65530, 65541)):
        body = bytes((i * 7 + l) % 256 for i in range(l))
        ops.append("visit txout n " + hx(struct.pack("<Q", l) + cs(l) + body + b"\x01"))
        ops.append("visit txin n " + hx(pat.take(32) + struct.pack("<I", l) + cs(l) + body + struct.pack("<I", 0xFFFFFFFD)))
        if l not in (252, 253, 254, 65535, 65536):
            ops.append("visit script n " + hx(cs(l) + body))
            ops.append("visit witness n " + hx(cs(1) + cs(l) + body))
        if l % 3 == 0:
            ops.append("redb txout " + hx(struct.pack("<Q", l) + cs(l) + body))
    # sizes at which Bitcoin's *other* rules change (520-byte pushes, 10,000-byte scripts, 100,000-byte standard
    # transactions): none of them is a parsing rule, so nothing may change there
    for l in (520, 521, 9999, 10000, 10001, 100000, 100001):
        body = bytes((i * 3 + l) % 256 for i in range(l))
        outs = cs(3) + struct.pack("<Q", 1) + cs(1) + b"\x51" + struct.pack("<Q", l) + cs(l) + body + struct.pack("<Q", 3) + cs(0)
        ops.append("visit txouts n " + hx(outs))
        ops.append("redb txouts " + hx(outs))
        ops.append("visit txout n " + hx(struct.pack("<Q", l) + cs(l) + body))
        ops.append("visit txin n " + hx(pat.take(32) + struct.pack("<I", 1) + cs(l) + body + struct.pack("<I", 2)))
        t = Tx(2, [(pat.take(32), 7, body, 0xFFFFFFFE)], [(5, body), (6, b"\x52")], [[body, b"\x01"]], l, True)
        ops.append("visit tx n " + hx(t.enc()))
        if l in (521, 10001):
            ops.append("redb tx " + hx(t.enc()))
            ops.append("visit witness n " + hx(cs(2) + cs(l) + body + cs(1) + b"\x07"))
    # one big element alone / last (a decoder that loses track of its offset at a wide length prefix can still succeed)
    for l in (253, 65536):
        body = bytes((i * 29 + 1) % 256 for i in range(l))
        for els in ([body], [b"\x05", body], [b"", b"\x06\x07", body], [body, body[:253]], [body[:254], b"\x09", body[:300]]):
            w = cs(len(els)) + b"".join(cs(len(e)) + e for e in els)
            ops.append("visit witness n " + hx(w))
            ops.append("visit witness n " + hx(w + b"\x00\x01"))
            ops.append("visit witnesses:1 n " + hx(w + b"\x03"))
            ops.append("visit witnesses:2 n " + hx(b"\x00" + w))
            t = Tx(2, [(pat.take(32), 1, b"", 0xFFFFFFFE)], [(9, b"\x51")], [els], 0x01020304, True)
            ops.append("visit tx n " + hx(t.enc()))
            ops.append("visit tx n " + hx(t.enc() + b"\xaa\xbb"))
            ops.append("redb tx " + hx(t.enc()))
        # segwit transactions whose witness-stripped part is large (many inputs / a long script)
        t = Tx(2, [(pat.take(32), i, bytes([0x51] * (i % 4)), 0xFFFFFF00 + i % 200) for i in range(min(l, 300))],
               [(7, body)], [[bytes([i % 256])] if i % 5 == 0 else [] for i in range(min(l, 300))], 99, True)
        ops.append("visit tx n " + hx(t.enc()))
        ops.append("redb tx " + hx(t.enc()))
    # wider-than-minimal length prefixes exactly at the thresholds, with the full body present (everything else valid)
    for l, forms in ((252, [b"\xfd\xfc\x00", b"\xfe\xfc\x00\x00\x00"]), (65535, [b"\xfe\xff\xff\x00\x00", b"\xff\xff\xff" + b"\x00" * 6]),
                     (0, [b"\xfd\x00\x00"]), (1, [b"\xfe\x01\x00\x00\x00"])):
        body = bytes((i * 31 + 2) % 256 for i in range(l))
        for f in forms:
            ops.append("visit script n " + hx(f + body + b"\x01"))
            ops.append("visit txout n " + hx(struct.pack("<Q", 3) + f + body))
            ops.append("visit witness n " + hx(b"\x01" + f + body))
            ops.append("visit txin n " + hx(pat.take(36) + f + body + struct.pack("<I", 4)))
            t = Tx(1, [(pat.take(32), 1, b"", 0xFFFFFFFE)], [(9, body)], [], 3, False).enc()
            good = cs(l)
            i = t.index(good + body) if l else None
            if i is not None:
                ops.append("visit tx n " + hx(t[:i] + f + t[i + len(good):]))
                ops.append("visit block n " + hx(header(pat) + b"\x01" + t[:i] + f + t[i + len(good):]))
    # a Break at the very first callback must win over any malformation located after it (and the callbacks before a
    # malformation must still be delivered): blocks whose transaction count / first transaction is missing or bad
    hb = header(pat)
    tiny = bytes([1, 0, 0, 0, 0, 1, 0, 0, 0, 0, 0, 0])
    for tail in (b"", b"\xfd", b"\xfd\x01", b"\xfd\x01\x00", b"\xfe\x01\x00\x00\x00", b"\x01", b"\x02" + tiny, b"\x01\x01\x00\x00\x00\x00\x02",
                 b"\x01" + tiny[:7], b"\xff" * 9, b"\x03" + tiny * 2):
        for pol in ("n", "b0", "b1", "b2"):
            ops.append(f"visit block {pol} " + hx(hb + tail))
    # the same for a transaction: Break at the first input / output / witness with garbage after it
    t = Tx(2, [(pat.take(32), 1, b"\x51", 0xFFFFFFFE), (pat.take(32), 2, b"", 7)], [(9, b"\x51\x52"), (10, b"")], [[b"\x01"], []], 5, True).enc()
    for cutpos in range(len(t) - 40, len(t), 3):
        for pol in ("b0", "b1", "b2", "b3", "b4", "b5", "b6"):
            ops.append(f"visit tx {pol} " + hx(t[:cutpos] + b"\xfd\x01\x00"))
    # a count in the five-byte form (65536 and up) declared, but only a few elements present: the elements that are
    # there are still delivered, and a Break on one of them still wins over the truncation
    for n in (65536, 65537, 0x01000000, 0xFFFFFFFF, 0x100000000, 2 ** 64 - 1):
        few = 6
        outs = cs(n) + b"".join((struct.pack("<Q", 7 + i) + (b"\x00" if i % 2 else b"\x01\x51")) for i in range(few))
        ins = cs(n) + b"".join(pat.take(32) + struct.pack("<I", i) + b"\x00" + struct.pack("<I", i) for i in range(few))
        wit = cs(n) + b"".join(cs(i % 3) + bytes([9] * (i % 3)) for i in range(few))
        for pol in ("n", "b0", "b3", "b5", "b6"):
            ops.append(f"visit txouts {pol} " + hx(outs))
            ops.append(f"visit txins {pol} " + hx(ins))
            ops.append(f"visit tx {pol} " + hx(struct.pack("<i", 1) + ins))
            ops.append(f"visit tx {pol} " + hx(struct.pack("<i", 1) + cs(1) + pat.take(36) + b"\x00" + bytes(4) + outs))
        ops.append("visit witness n " + hx(wit))
        ops.append(f"visit witnesses:{n} b2 " + hx(b"\x00\x01\x01\xaa\x00\x00"))
        ops.append("visit block b3 " + hx(header(pat) + cs(n) + bytes([1, 0, 0, 0, 0, 1, 0, 0, 0, 0, 0, 0]) * 3))
    # a long script / element FOLLOWED by further elements (offsets after a five-byte length prefix)
    for l in (65535, 65536):
        body = bytes((i * 7 + 3) % 256 for i in range(l))
        outs = cs(3) + struct.pack("<Q", 1) + cs(l) + body + struct.pack("<Q", 2) + cs(2) + b"\x51\x52" + struct.pack("<Q", 3) + b"\x00"
        ops.append("visit txouts n " + hx(outs))
        ops.append("visit txouts b1 " + hx(outs))
        ops.append("redb txouts " + hx(outs))
        ins = cs(2) + pat.take(36) + cs(l) + body + struct.pack("<I", 5) + pat.take(36) + b"\x00" + struct.pack("<I", 6)
        ops.append("visit txins n " + hx(ins))
        ops.append("visit tx n " + hx(struct.pack("<i", 2) + ins + outs + struct.pack("<I", 9)))
    # a segwit transaction cut at every position of its witness section and lock time, under every Break position
    t = Tx(2, [(pat.take(32), 1, b"\x51", 0xFFFFFFFE), (pat.take(32), 2, b"", 7), (pat.take(32), 3, b"", 8)], [(9, b"\x51")],
           [[b"\x01\x02"], [], [b"", b"\x03"]], 5, True).enc()
    wstart = len(t) - 4 - (1 + 3) - 1 - (1 + 1 + 2)
    for cut in range(wstart - 2, len(t) + 1):
        for k in range(0, 9):
            ops.append(f"visit tx b{k} " + hx(t[:cut]))
        ops.append("visit tx n " + hx(t[:cut]))
    # size sweep: one-input segwit and legacy transactions whose inputs+outputs section takes every length from the
    # smallest up to ~1.1 KB (fixed-size scratch buffers in the hashing helpers, windows a few bytes wide)
    for L in list(range(0, 1100)):
        script = bytes((i * 3 + L) % 256 for i in range(L))
        ts = Tx(1, [(pat.take(32), 1, b"", 0xFFFFFFFE)], [(9, script)] if L % 7 else ([(9, script)] if L else []), [[b"\x01"]], 0x01020304, True)
        ops.append("visit tx n " + hx(ts.enc() + (b"\xee" if L % 2 else b"")))
        if L % 3 == 0:
            tl = Tx(-1, [(pat.take(32), 1, script, 5)], [(9, b"")], [], 0xFFFFFFFF, False)
            ops.append("visit tx n " + hx(tl.enc()))
    # outpoints: null / coinbase-like indices with zero and non-zero ids; ordering pairs that differ only in the index
    for txid in (bytes(32), bytes(range(1, 33)), bytes([0xFF] * 32)):
        for vout in (0, 1, 255, 256, 257, 65535, 65536, 0x7FFFFFFF, 0xFFFFFFFE, 0xFFFFFFFF):
            e = txid + struct.pack("<I", vout)
            ops.append("visit outpoint n " + hx(e + b"\x01\x02"))
            ops.append("redb outpoint " + hx(e))
            ops.append("visit txin n " + hx(e + b"\x00" + struct.pack("<I", 0xFFFFFFFF)))
        for v1, v2 in ((1, 256), (256, 1), (255, 256), (0xFFFFFFFF, 0), (65536, 255), (2, 0x01000000), (7, 7)):
            ops.append(f"cmp {hx(txid + struct.pack('<I', v1))} {hx(txid + struct.pack('<I', v2))}")
    # stored output lists whose count needs each compact-size width (from_bytes re-reads the count only)
    for n in (0, 1, 252, 253, 65535, 65536):
        if n > 300 and tier == "quick" and n != 65536:
            continue
        outs = cs(n) + (struct.pack("<Q", 1) + b"\x00") * n
        ops.append("redbraw txouts " + hx(outs))
    # the smallest transactions the parser accepts, exact length and with 1..60 trailing bytes; blocks ending in them
    tiny_seg = bytes([1, 0, 0, 0, 0, 1, 0, 0, 0, 0, 0, 0])
    tiny_leg = struct.pack("<i", 1) + b"\x01" + inp(3) + b"\x00" + struct.pack("<I", 0)
    for t in (tiny_seg, tiny_leg):
        for k in list(range(0, 12)) + [20, 40, 48, 49, 59, 60, 61]:
            ops.append(f"visit tx n {hx(t + bytes([0xEE] * k))}")
        for ntx in (1, 2, 5):
            blk = header(pat) + cs(ntx) + t * ntx
            for k in (0, 1, 8, 9, 50):
                ops.append(f"visit block n {hx(blk + bytes([0xDD] * k))}")
            ops.append(f"visit block b{ntx} {hx(blk)}")
    # compact sizes at the thresholds, followed by 0..12 more bytes (decoders with a wide fast path)
    for b0 in (b"\xfc", b"\xfd\xfc\x00", b"\xfd\xfd\x00", b"\xfd\xff\xff", b"\xfe\xff\xff\x00\x00", b"\xfe\x00\x00\x01\x00",
               b"\xfe\xff\xff\xff\xff", b"\xff\xff\xff\xff\xff\x00\x00\x00\x00", b"\xff\x00\x00\x00\x00\x01\x00\x00\x00",
               b"\xff" * 9, b"\xfd\x00\x00", b"\xfe\x00\x00\x00\x00", b"\xff" + b"\x00" * 8):
        for k in range(0, 13):
            tail = bytes((17 * i + 3) % 256 for i in range(k))
            ops.append(f"scan {hx(b0 + tail)} {k}")
            ops.append(f"plen {hx(b0 + tail)}")
            ops.append(f"visit script n {hx(b0 + tail)}")
    return ops


def fam_bigcount(tier, rng):
    """element counts at and above 65536 (the five-byte count prefix): lists far beyond what the list-based model can
    execute, run on the implementation only against the model-free oracles (rust-bitcoin traversal, partition,
    prefixes, iterator, allocation)"""
    ops = []
    pat = Pat(13)
    out9 = lambda i: struct.pack("<Q", i) + b"\x00"
    inp = lambda i: bytes([(i * 7 + j) % 256 for j in range(32)]) + struct.pack("<I", i) + b"\x00" + struct.pack("<I", 0xFFFFFFFF)
    for n in (65535, 65536, 65537) if tier == "quick" else (65535, 65536, 65537, 70000, 131072):
        outs = cs(n) + b"".join(out9(i) for i in range(n))
        ops.append("visit txouts n " + hx(outs))
        ops.append(f"visit txouts b{n - 1} " + hx(outs))
        ops.append("redb txouts " + hx(outs))
        if n <= 65537:
            ins = cs(n) + b"".join(inp(i) for i in range(n))
            ops.append("visit txins n " + hx(ins))
            ops.append("visit tx n " + hx(struct.pack("<i", 1) + ins + cs(1) + out9(1) + struct.pack("<I", 0)))
        wit = cs(n) + b"\x00" * n
        ops.append("visit witness n " + hx(wit + b"\x07"))
        ops.append(f"visit witnesses:{n} n " + hx(b"\x00" * (n - 1) + b"\x01\x01\x55"))
        if n == 65536:
            tiny = bytes([1, 0, 0, 0, 0, 1, 0, 0, 0, 0, 0, 0])
            ops.append("visit block n " + hx(header(pat) + cs(n) + tiny * n))
    return ops


def fam_mut(tier, rng):
    """P-mut: random byte / bit mutations, insertions and deletions of P-gram objects"""
    ops = []
    shapes = gram_shapes("quick")
    n = 6000 if tier == "quick" else 40000
    for i in range(n):
        tx = shapes[rng.randrange(len(shapes))]
        b = bytearray(tx.enc())
        if len(b) > 1500:
            continue
        for _ in range(rng.choice((1, 1, 2, 3))):
            k = rng.randrange(4)
            p = rng.randrange(len(b))
            if k == 0:
                b[p] = rng.choice(ALPHABET)
            elif k == 1:
                b[p] ^= 1 << rng.randrange(8)
            elif k == 2:
                del b[p]
            else:
                b.insert(p, rng.choice(ALPHABET))
            if not b:
                b = bytearray(b"\x00")
        ty = rng.choice(("tx", "tx", "tx", "block", "txins", "txouts", "witness", "witnesses:2"))
        if ty == "block":
            bb_ = header(Pat(i)) + cs(1) + bytes(b)
        elif ty == "tx":
            bb_ = bytes(b)
        else:
            bb_ = bytes(b[4 + (2 if tx.segwit else 0):])
        pol = "n" if rng.random() < 0.7 else f"b{rng.randrange(6)}"
        ops.append(f"visit {ty} {pol} {hx(bb_)}")
    return ops


def fam_find(tier, rng):
    """C19: FindTransaction on generated blocks: target at every position, absent, duplicated. The transaction ids are
    double SHA-256 of the witness-stripped serialization, computed here with hashlib (a third implementation)."""
    import hashlib
    ops = []
    shapes = gram_shapes("quick")
    pat = Pat(41)

    def txid(t):
        stripped = Tx(t.version, t.ins, t.outs, [], t.locktime, False).enc() if t.ins else None
        if stripped is None:
            # zero-input transactions only exist in segwit form; their stripped form is version, 00, outs, locktime
            stripped = struct.pack("<i", t.version) + cs(0) + cs(len(t.outs)) + b"".join(struct.pack("<Q", v) + cs(len(s)) + s for v, s in t.outs) + struct.pack("<I", t.locktime)
        return hashlib.sha256(hashlib.sha256(stripped).digest()).digest()

    # blocks made of the smallest transactions the parser accepts (51-byte legacy with no outputs, 12-byte segwit form
    # with no inputs): present / absent / duplicated ids
    tl = lambda i: Tx(1, [(pat.take(32), i, b"", 0xFFFFFFFF)], [], [], i, False)
    ts = lambda i: Tx(1, [], [], [], i, True)
    for txs in ([tl(1)], [tl(1), tl(2)], [ts(5), tl(3), ts(6)], [tl(1), tl(2), Tx(2, [(pat.take(32), 9, b"", 1)], [(5, b"")], [], 0, False)], [ts(7), ts(7)]):
        body = header(pat) + cs(len(txs)) + b"".join(t.enc() for t in txs)
        for t in txs:
            ops.append(f"find {txid(t).hex()} {hx(body)}")
        ops.append(f"find {'17' * 32} {hx(body)}")
    # blocks whose transactions carry what the small shapes never have: several long witness elements in one witness,
    # long scripts, many inputs — a search is only as good as the parse of everything before the target
    big = bytes((i * 17 + 3) % 256 for i in range(300))
    heavy = [Tx(2, [(pat.take(32), 0, b"", 0xFFFFFFFE)], [(7, b"\x51")], [[big[:253], big[:254]]], 1, True),
             Tx(2, [(pat.take(32), 1, big[:260], 5), (pat.take(32), 2, b"", 6)], [(8, big[:255]), (9, b"")], [[big, b"\x01", big[:253]], []], 2, True),
             Tx(1, [(pat.take(32), i, b"", i) for i in range(130)], [(1, b"\x00")], [], 3, False),
             Tx(1, [(pat.take(32), 3, b"\x51", 0)], [(2, b"\x52")], [], 4, False)]
    body = header(pat) + cs(len(heavy)) + b"".join(t.enc() for t in heavy)
    for t in heavy:
        ops.append(f"find {txid(t).hex()} {hx(body)}")
    ops.append(f"find {'99' * 32} {hx(body)}")
    for ntx in (1, 2, 3, 5) if tier == "quick" else (1, 2, 3, 5, 9, 17):
        txs = [shapes[(ntx * 11 + i * 3) % len(shapes)] for i in range(ntx)]
        if ntx >= 3:
            txs[-1] = txs[1]  # a duplicate: the first one must be found
        body = header(pat) + cs(ntx) + b"".join(t.enc() for t in txs)
        for t in txs:
            ops.append(f"find {txid(t).hex()} {hx(body)}")
        ops.append(f"find {'42' * 32} {hx(body)}")
        # truncated block: found only if the target is before the cut
        ops.append(f"find {txid(txs[-1]).hex()} {hx(body[:-3])}")
        ops.append(f"find {txid(txs[0]).hex()} {hx(body[:-3])}")
    return ops


def fam_redb(tier, rng):
    """C20: key ordering on outpoint pairs (equal, prefix-equal, last-byte-different, random)"""
    ops = []
    base = bytes(range(36))
    pairs = [(base, base), (base, base[:35] + b"\xff"), (base[:35] + b"\xff", base), (b"\x00" * 36, b"\xff" * 36),
             (base, bytes([1]) + base[1:]), (base[:20], base), (base, base[:20]), (b"", b""), (b"", b"\x00")]
    for _ in range(300 if tier == "quick" else 5000):
        a = bytearray(rng.getrandbits(8) for _ in range(36))
        b = bytearray(a)
        k = rng.randrange(4)
        if k == 0:
            b[rng.randrange(36)] = rng.getrandbits(8)
        elif k == 1:
            b = bytearray(rng.getrandbits(8) for _ in range(36))
        elif k == 2:
            p = rng.randrange(36)
            b[p] = (b[p] + 1) % 256
        pairs.append((bytes(a), bytes(b)))
    # keys that differ in exactly one byte, at every one of the 36 positions, both directions
    for i in range(36):
        for delta in (1, 0x80):
            c = bytearray(base)
            c[i] = (c[i] + delta) % 256
            pairs.append((base, bytes(c)))
            pairs.append((bytes(c), base))
    for a, b in pairs:
        ops.append(f"cmp {hx(a)} {hx(b)}")
    return ops


# ----------------------------------------------------------------------------- cache
def cache_value(tag, n):
    return bytes(((tag * 37 + i * 11) % 255) + 1 for i in range(n))


def fam_krand(tier, rng):
    """K-rand: random cache histories; capacities 0..4096, four size distributions, key reuse present/evicted/fresh"""
    ops = []
    n_hist = 600 if tier == "quick" else 3000
    for h in range(n_hist):
        cap = rng.choice((0, 1, 2, 3, 5, 8, 10, 16, 33, 64, 100, 257, 1000, 4096))
        dist = rng.choice(("tiny", "zero", "near", "mixed"))
        steps = rng.randrange(5, 60 if tier == "quick" else 300)
        ops.append(f"cnew {cap}")
        used = []
        fresh = 0
        # a third of the histories draw their keys from a handful: rejected duplicates, evictions and re-insertions of
        # the same key then follow each other closely (state left behind by a rejected call shows up only then)
        universe = rng.randrange(2, 9) if h % 3 == 0 else None
        for s in range(steps):
            if dist == "tiny":
                l = rng.randrange(0, 4)
            elif dist == "zero":
                l = 0 if rng.random() < 0.5 else rng.randrange(0, max(1, cap // 2) + 1)
            elif dist == "near":
                l = max(0, cap - rng.randrange(0, 3)) if rng.random() < 0.6 else rng.randrange(0, cap + 2)
            else:
                l = rng.randrange(0, cap + 2)
            r = rng.random()
            if universe is not None:
                k = rng.randrange(universe)
                if k not in used:
                    used.append(k)
            elif used and r < 0.25:
                k = rng.choice(used)
            else:
                k = fresh
                fresh += 1
                used.append(k)
            ops.append(f"cins {k} {hx(cache_value(s + 1 + h, l))}")
            if rng.random() < 0.3 and used:
                ops.append(f"cget {rng.choice(used)}")
        for k in used[-12:]:
            ops.append(f"cget {k}")
    # capacities and value sizes around 2^16 and beyond (offsets / lengths that only go wrong past 16 bits)
    for cap in (65535, 65536, 65537, 70000, 200000, 1 << 20):
        ops.append(f"cnew {cap}")
        lens = [65535, 1, 65536, 0, 65537, 40000, 3, 65536, 70000, 30000, 65535, 0, 2]
        for i, l in enumerate(lens if tier == "quick" else lens * 2):
            ops.append(f"cins {i} {hx(cache_value(i + 7, l))}")
            ops.append(f"cget {max(0, i - 1)}")
        for k in range(len(lens)):
            ops.append(f"cget {k}")
    return ops


def fam_corpus():
    """regression corpus: the six witnesses of DESIGN §1 (those expressible in the line protocol), the upstream
    fuzz-regression inputs, and minimised past disagreements"""
    ops = []
    # D1
    ops += ["cnew 10", f"cins 1 {'01' * 6}", f"cins 2 {'02' * 6}", "cget 2", "cget 1"]
    # D2
    ops += ["cnew 10", "cins 0 -", f"cins 1 {'01' * 5}", f"cins 2 {'02' * 5}", f"cins 3 {'03' * 3}", "cget 0", "cget 1", "cget 2", "cget 3"]
    # upstream test insert_when_buffer_exactly_full
    ops += ["cnew 10", f"cins 0 {'aa' * 10}", f"cins 1 {'bb' * 10}", "cget 0", "cget 1", "cins 2 cc", "cget 1", "cget 2"]
    # D3
    ops += ["plen " + "ff" * 9, "scan " + "ff" * 9 + " 0"]
    # D4
    ops += ["visit txouts n 02" + "0100000000000000" + "00" + "0200000000000000" + "0151"]
    return ops
