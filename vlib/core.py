"""check driver: build, theorem audit, correspondence run, direct oracles, verdict, evidence (DESIGN §5)"""
import collections
import fcntl
import hashlib
import json
import os
import random
import re
import subprocess
import sys
import time

from . import gen

ROOT = os.path.dirname(os.path.dirname(os.path.abspath(__file__)))
LEAN = os.path.join(ROOT, "lean")
HARNESS = os.path.join(ROOT, "harness")
BUILD = os.path.join(ROOT, "build")
BSMODEL = os.path.join(LEAN, ".lake", "build", "bin", "bsmodel")
BSHARNESS = os.path.join(BUILD, "target", "verif", "bsharness")
ALLOWED_AXIOMS = {"propext", "Classical.choice", "Quot.sound"}
NCPU = os.cpu_count() or 4


class Infra(Exception):
    pass


def sh(cmd, cwd=None, timeout=None, env=None, inp=None):
    e = dict(os.environ)
    e["CARGO_NET_OFFLINE"] = "true"
    if env:
        e.update(env)
    return subprocess.run(cmd, cwd=cwd, timeout=timeout, env=e, input=inp, capture_output=True, text=True)


class Lock:
    def __init__(self, name):
        os.makedirs(BUILD, exist_ok=True)
        self.path = os.path.join(BUILD, name + ".lock")

    def __enter__(self):
        self.f = open(self.path, "w")
        fcntl.flock(self.f, fcntl.LOCK_EX)

    def __exit__(self, *a):
        fcntl.flock(self.f, fcntl.LOCK_UN)
        self.f.close()


# ----------------------------------------------------------------------------- build + theorem audit
def build_harness():
    with Lock("cargo"):
        lock = os.path.join(HARNESS, "Cargo.lock")
        if not os.path.exists(lock):
            import shutil
            shutil.copy("/repo/Cargo.lock", lock)
        r = sh(["cargo", "build", "--offline", "--profile", "verif"], cwd=HARNESS, timeout=1800)
        if r.returncode != 0:
            # the read-only layout hook no longer compiles against the cache's internals (a refactoring): build
            # without the hook; every verdict comes from the public API, only the layout cross-check is lost
            r = sh(["cargo", "build", "--offline", "--profile", "verif"], cwd=HARNESS, timeout=1800,
                   env={"RUSTFLAGS": "--cap-lints warn"})
        if r.returncode != 0:
            raise Infra("cargo build of the harness against /repo failed:\n" + r.stderr[-4000:])
    if not os.path.exists(BSHARNESS):
        raise Infra("harness binary missing")


def build_lean(targets):
    with Lock("lake"):
        r = sh(["lake", "build"] + targets, cwd=LEAN, timeout=3600)
    return r


def prop_modules(pid):
    """the property modules of `pid`: BS/Props/<pid>.lean and, when present, the extension files <pid>b.lean, <pid>c.lean …"""
    mods = [pid]
    for suffix in "bcdefg":
        if os.path.exists(os.path.join(LEAN, "BS", "Props", pid + suffix + ".lean")):
            mods.append(pid + suffix)
    return mods


def theorems_of(pid):
    path = os.path.join(LEAN, "BS", "Props", pid + ".lean")
    if not os.path.exists(path):
        return [], path
    src = "\n".join(open(os.path.join(LEAN, "BS", "Props", m + ".lean")).read() for m in prop_modules(pid))
    # strip comments before looking for forbidden constructs and theorem names
    nocom = re.sub(r"/-.*?-/", "", src, flags=re.S)
    nocom = re.sub(r"--.*", "", nocom)
    names = re.findall(r"^theorem\s+(" + pid + r"_\w+)", nocom, flags=re.M)
    return names, path


FORBIDDEN = re.compile(r"\b(sorry|admit|native_decide|bv_decide|implemented_by|unsafe)\b|^axiom\s|maxHeartbeats\s+0", re.M)


def scan_forbidden():
    hits = []
    for d, _, fs in os.walk(os.path.join(LEAN, "BS")):
        for f in fs:
            if f.endswith(".lean"):
                p = os.path.join(d, f)
                src = open(p).read()
                nocom = re.sub(r"/-.*?-/", "", src, flags=re.S)
                nocom = re.sub(r"--.*", "", nocom)
                for m in FORBIDDEN.finditer(nocom):
                    hits.append(f"{os.path.relpath(p, LEAN)}: {m.group(0).strip()}")
    return hits


def audit(pid, tier="quick"):
    """build the property module, then #print axioms for every theorem named <pid>_*.
    returns (obligations, discharged, details, problems)"""
    names, path = theorems_of(pid)
    problems = []
    if not names:
        if not os.path.exists(path):
            r = build_lean(["bsmodel"])
            if r.returncode != 0:
                raise Infra("lake build bsmodel failed: " + (r.stdout + r.stderr)[-2000:])
        return 0, 0, [], [f"no theorem named {pid}_* in {path}"]
    r = build_lean([f"BS.Props.{m}" for m in prop_modules(pid)] + ["bsmodel"])
    if r.returncode != 0:
        msg = (r.stdout + r.stderr)[-3000:]
        # which theorem broke, if the message says
        problems.append(f"lake build BS.Props.{pid} failed: {msg}")
        return len(names), 0, [], problems
    os.makedirs(os.path.join(BUILD, "audit"), exist_ok=True)
    ap = os.path.join(BUILD, "audit", pid + ".lean")
    with open(ap, "w") as f:
        f.write("".join(f"import BS.Props.{m}\n" for m in prop_modules(pid)) + "open BS\n")
        for n in names:
            f.write(f"#print axioms BS.{n}\n")
    r = sh(["lake", "env", "lean", ap], cwd=LEAN, timeout=900)
    out = r.stdout + r.stderr
    details = []
    discharged = 0
    for n in names:
        m = re.search(r"'BS\." + re.escape(n) + r"' (does not depend on any axioms|depends on axioms: \[([^\]]*)\])", out)
        if not m:
            problems.append(f"theorem {n}: no axiom report ({out[-300:]!r})")
            continue
        axs = set() if m.group(2) is None else {a.strip() for a in m.group(2).replace("\n", " ").split(",") if a.strip()}
        bad = axs - ALLOWED_AXIOMS
        if bad:
            problems.append(f"theorem {n} depends on disallowed axioms {sorted(bad)}")
        else:
            discharged += 1
        details.append({"theorem": n, "axioms": sorted(axs)})
    forb = scan_forbidden()
    if forb:
        problems.append("forbidden constructs in the Lean sources: " + "; ".join(forb[:5]))
    if tier == "thorough":
        # independent re-check of the compiled property module by the toolchain's `leanchecker`
        for m in prop_modules(pid):
            r = sh(["lake", "env", "leanchecker", f"BS.Props.{m}"], cwd=LEAN, timeout=1800)
            details.append({"leanchecker": f"BS.Props.{m}", "rc": r.returncode})
            if r.returncode != 0:
                problems.append(f"leanchecker rejects BS.Props.{m}: {(r.stdout + r.stderr)[-500:]}")
    return len(names), discharged, details, problems


# ----------------------------------------------------------------------------- running ops
def split_ops(ops, n):
    """split into ~n chunks; cache histories (starting at `cnew`) are kept whole"""
    big = sum(len(o) for o in ops) > 4_000_000
    if len(ops) < 200 and not big:
        return [ops]
    chunks, cur = [], []
    target = max(1 if big else 100, len(ops) // n + 1)
    for op in ops:
        if len(cur) >= target and not op.startswith(("cins", "cget")):
            chunks.append(cur)
            cur = []
        cur.append(op)
    if cur:
        chunks.append(cur)
    return chunks


def run_ops(ops, tag, impl_flags=(), timeout=1800, impl_only=False):
    """returns (impl_lines, model_lines, problems). Both executables are run on the same ops, sharded."""
    d = os.path.join(BUILD, "run", tag)
    os.makedirs(d, exist_ok=True)
    chunks = split_ops(ops, NCPU)
    procs = []
    for i, ch in enumerate(chunks):
        p = os.path.join(d, f"{i}.ops")
        with open(p, "w") as f:
            f.write("\n".join(ch) + "\n")
        pi = subprocess.Popen([BSHARNESS, "impl", *impl_flags], stdin=open(p), stdout=open(p + ".impl", "w"), stderr=subprocess.DEVNULL)
        pm = subprocess.Popen([BSMODEL] if not impl_only else ["true"], stdin=open(p), stdout=open(p + ".model", "w"), stderr=subprocess.DEVNULL)
        procs.append((p, pi, pm, ch))
    impl, model, problems = [], [], []
    deadline = time.time() + timeout
    for p, pi, pm, ch in procs:
        for who, pr in (("impl", pi), ("model", pm)):
            try:
                pr.wait(timeout=max(1, deadline - time.time()))
            except subprocess.TimeoutExpired:
                pr.kill()
                problems.append((who, "timeout", p))
        a = open(p + ".impl").read().splitlines()
        b = open(p + ".model").read().splitlines()
        if len(a) != len(ch):
            problems.append(("impl", f"died after {len(a)} of {len(ch)} ops (rc={pi.returncode})", p))
            a = a + ["harness-died"] * (len(ch) - len(a))
        if impl_only:
            b = [split_line(x)[0] for x in a]   # no model run: nothing to compare, the oracles decide
        elif len(b) != len(ch):
            problems.append(("model", f"died after {len(b)} of {len(ch)} ops (rc={pm.returncode})", p))
            b = b + ["model-died"] * (len(ch) - len(b))
        impl.extend(a)
        model.extend(b)
    if not problems:
        import shutil
        shutil.rmtree(d, ignore_errors=True)   # scratch of a clean run is not kept (disk)
    return impl, model, problems


def split_line(line):
    core, _, orc = line.partition(" #")
    o = {}
    for tok in orc.split():
        k, _, v = tok.partition("=")
        o[k] = v
    return core, o


VISIT_RE = re.compile(r"^visit r=(\S+)(?: obj=\((.*)\) rem=(\S+))? ev=(.*)$")


def parse_visit(core):
    m = VISIT_RE.match(core)
    if not m:
        return None
    return {"r": m.group(1), "obj": m.group(2), "rem": m.group(3), "ev": m.group(4)}


def field(obj, name):
    """value of a top-level `name=` field inside an obj string (parentheses aware)"""
    if obj is None:
        return None
    depth = 0
    i = 0
    n = len(obj)
    start = 0
    parts = []
    while i < n:
        c = obj[i]
        if c in "([":
            depth += 1
        elif c in ")]":
            depth -= 1
        elif c == "," and depth == 0:
            parts.append(obj[start:i])
            start = i + 1
        i += 1
    parts.append(obj[start:])
    for p in parts:
        if p.startswith(name + "="):
            return p[len(name) + 1:]
    return None


def kv(core):
    d = {}
    for tok in core.split()[1:]:
        k, _, v = tok.partition("=")
        d[k] = v
    return d


def is_policy_n(op):
    t = op.split()
    return len(t) >= 3 and t[0] == "visit" and t[2] == "n"


def proj(pid, op, core):
    """the part of a canonical line property `pid` is about; None = this op says nothing about it"""
    kind = op.split()[0]
    if core in ("bad-op", "harness-panic", "harness-died", "model-died"):
        return core
    if pid == "C01":
        return "panic" in core
    if kind == "visit":
        v = parse_visit(core)
        if v is None:
            return core
        ok = v["r"] == "ok"
        pn = is_policy_n(op)
        if pid == "C02":
            return (field(v["obj"], "v"), v["rem"]) if ok else None
        if pid == "C03":
            return ("ok", v["obj"], v["rem"]) if ok else "reject" if pn else None
        if pid == "C04":
            return v["ev"] if pn else None
        if pid == "C07":
            return (v["r"] if not ok else "ok", v["ev"]) if pn else None
        if pid == "C09":
            return (v["r"], v["ev"]) if not pn else None
        if pid == "C10":
            # txid / block hash / preimage of the returned object and of every object handed to the visitor
            inev = tuple(re.findall(r"(?:txid|hash|pre)=[^,)]*", v["ev"] or ""))
            if not ok:
                return inev if inev else None
            return (field(v["obj"], "txid"), field(v["obj"], "hash"), field(v["obj"], "pre"), inev)
        if pid == "C16" and ok is not None:
            inev = tuple(re.findall(r",w=[^,)]*", v["ev"] or ""))
            return (field(v["obj"], "w") if ok else None, inev) if (ok or inev) else None
        if pid == "C14":
            return v["r"] if (pn and not ok) else ("ok" if pn else None)
        if pid == "C15":
            return (v["r"], v["obj"], v["rem"]) if pn else None
        if pid == "C17":
            if not ok or op.split()[1] != "txouts":
                return None
            o = v["obj"]
            i = o.find("iter=")
            return o[i:] if i >= 0 else None
        if pid == "C19":
            return None
        return None
    if kind in ("scan", "plen"):
        return core if pid == "C08" else None
    if kind in ("num", "wrap", "rslice"):
        return core if pid == "C18" else None
    if kind == "find":
        if pid != "C19":
            return None
        # what the search is about: found or not (and which transaction), and VisitBreak iff found; which decode
        # error an invalid block ends with is C14's business
        d = kv(core)
        r = d.get("r", "")
        return (r if r in ("ok", "err:VisitBreak", "panic") else "decode-error", d.get("found"))
    if kind in ("redb", "cmp", "redbraw"):
        if pid == "C20":
            return core
        if kind == "redb" and op.split()[1] == "tx" and pid in ("C10", "C16"):
            # a transaction rebuilt from its stored bytes is a transaction too: its txid / preimage / weight
            m = re.search(r"obj=\((.*)\) fw=", core)
            obj = m.group(1) if m else None
            if pid == "C10":
                return (field(obj, "txid"), field(obj, "pre")) if obj else core
            return field(obj, "w") if obj else core
        return None
    if kind == "cnew":
        return None
    if kind == "cins":
        d = kv(core)
        if pid == "C13":
            # which of the two errors is reported when both apply is not fixed by the property: the projection only
            # says "rejected"; the reference-log oracle (which knows the state) judges whether the error is a right one
            r = d.get("r", "")
            return ("rejected" if r in ("present", "toolarge") else r, d.get("len"), d.get("full"))
        if pid == "C12":
            r = d.get("r", "")
            return ("evicts" if r.startswith("ok:") and r != "ok:0" else "keeps" if r.startswith("ok:")
                    else "rejected" if r in ("present", "toolarge") else r)
        if pid in ("C11", "C06"):
            r = d.get("r", "").split(":")[0]
            return "rejected" if r in ("present", "toolarge") else r
        return None
    if kind == "cget":
        d = kv(core)
        if pid == "C06":
            return d.get("r")
        if pid == "C11":
            return d.get("r", "").split(":")[0]
        if pid == "C13":
            return (d.get("r", "").split(":")[0], d.get("has"))
        return None
    return None


# which direct-oracle verdicts speak about which property
def oracle_fails(pid, op, orc, op_core=None):
    """list of failure descriptions relevant to `pid` from the oracle section of an impl line"""
    out = []

    def bad(k):
        v = orc.get(k)
        return v if v is not None and v.startswith("FAIL") else None

    if pid == "C01":
        # a panic of the real crate is a violation by itself, whatever the model says
        if op_core is not None and ("panic" in op_core):
            out.append("implementation-panics:" + op_core[:120])
        for k in ("nopanic", "cbound"):
            if bad(k):
                out.append(f"{k}={orc[k]}")
        if bad("pfx") and "panic" in orc["pfx"]:
            out.append("pfx=" + orc["pfx"])
        if orc.get("alloc") == "panic":
            out.append("panic-in-accessor-or-visit")
        # accessors and iterator adaptors of a parsed object, self_visit of a parsed object
        if bad("rb") and "panic" in orc["rb"]:
            out.append("rb=" + orc["rb"])
        if bad("selfv") and "panics" in orc["selfv"]:
            out.append("selfv=" + orc["selfv"])
        if bad("itad") and "panics" in orc["itad"]:
            out.append("itad=" + orc["itad"])
    elif pid == "C02":
        if bad("part"):
            out.append("part=" + orc["part"])
        if bad("indep"):
            out.append("indep=" + orc["indep"])
    elif pid == "C03":
        v = bad("rb")
        if v and re.search(r"consumed|accept|fields|script-bytes|count|all_empty|reserialize|length-arith|accessors|iterator-item|iterator-short", v):
            out.append("rb=" + v)
        # neither accepting nor rejecting: a panic on this input
        if op_core is not None and op_core.startswith("visit r=panic"):
            out.append("implementation-panics-instead-of-accepting-or-rejecting")
        if bad("big") and re.search(r"consumed|partition", orc["big"]):
            out.append("big=" + orc["big"])
    elif pid == "C04":
        v = bad("rb")
        if v and "traversal" in v:
            out.append("rb=" + v)
        # a valid input (the reference decoder accepts it) that is rejected, or on which the visit panics, does not get
        # the traversal of its structure: the callbacks stop short
        if v and "rust-bitcoin-accepts" in v:
            out.append("rb=" + v + " (valid input: its traversal is not delivered)")
        if op_core is not None and op_core.startswith("visit r=panic"):
            out.append("the-visit-panics-instead-of-delivering-the-traversal")
        v = bad("pfx")
        if v and "callbacks" in v:
            out.append("pfx=" + v)
        # `self_visit` is a visit of the object's own bytes: its callbacks are the traversal too
        v = bad("selfv")
        if v and "callbacks-differ-from-visit(never-breaking)" in v:
            out.append("selfv=" + v)
    elif pid == "C05":
        a = orc.get("alloc")
        if a is not None and a not in ("0", "panic"):
            out.append(f"alloc={a}")
        a = orc.get("findalloc")
        if a is not None and a != "0":
            out.append(f"findalloc={a} (heap allocations during a search that finds nothing)")
        if bad("rb") and "allocates" in orc["rb"]:
            out.append("rb=" + orc["rb"])
        a = orc.get("cmpalloc")
        if a is not None and a != "0":
            out.append(f"cmpalloc={a} (heap allocations inside the outpoint key comparison)")
        a = orc.get("redballoc")
        if a is not None and a not in ("0", "panic"):
            out.append(f"redballoc={a} (heap allocations inside RedbValue::from_bytes)")
    elif pid == "C07":
        if bad("pfx"):
            out.append("pfx=" + orc["pfx"])
    elif pid == "C08":
        for k in ("ref", "agree"):
            if op.startswith("scan") and bad(k):
                out.append(f"{k}=FAIL")
    elif pid == "C09":
        if bad("brk"):
            out.append("brk=" + orc["brk"])
        v = bad("selfv")
        if v and "under-break-policy" in v:
            out.append("selfv=" + v)
    elif pid == "C10":
        if bad("redbtx") and "txid" in orc["redbtx"]:
            out.append("redbtx=" + orc["redbtx"])
        v = bad("rb")
        if v and re.search(r"tx-preimage|txid|header-hashes|block-accessors", v):
            out.append("rb=" + v)
        # the digests on the implementation's own line, recomputed: every `tx(...)` callback (and a parsed transaction)
        # carries the three preimage parts as offsets into the input and the txid of both backends; every header its
        # view and hash
        if op_core is not None and op.startswith("visit ") and op.split()[1] in ("tx", "block", "header") and " r=ok" in op_core[:12]:
            try:
                raw = bytes.fromhex(op.split()[-1]) if op.split()[-1] != "-" else b""
            except ValueError:
                raw = None
            if raw is not None:
                import hashlib

                def dsha(x):
                    return hashlib.sha256(hashlib.sha256(x).digest()).hexdigest()

                def sl(tok):
                    if tok == "@+0":
                        return b""
                    a, _, n = tok[1:].partition("+")
                    return raw[int(a):int(a) + int(n)]
                for m in re.finditer(r"pre=(@\d*\+\d+)\|(@\d*\+\d+)\|(@\d*\+\d+),w=\d+,txid=([0-9a-fA-F:MISMATCHpanic]+)", op_core):
                    if m.group(4) != dsha(sl(m.group(1)) + sl(m.group(2)) + sl(m.group(3))):
                        out.append("txid-is-not-the-double-sha256-of-the-reported-preimage:" + m.group(4)[:24])
                        break
                for m in re.finditer(r"hdr[=(]\(?v=(@\d+\+80),[^()]*?\)?,hash=([0-9a-fA-F:MISMATCHpanic]+)", op_core):
                    if m.group(2) != dsha(sl(m.group(1))):
                        out.append("block-hash-is-not-the-double-sha256-of-the-80-header-bytes:" + m.group(2)[:24])
                        break
    elif pid == "C14":
        v = bad("rb")
        if v and "error-class" in v:
            out.append("rb=" + v)
    elif pid == "C15":
        v = bad("self")
        if v:
            out.append("self=" + v)
        v = bad("selfv")
        if v and "never-breaking" in v or (v and "remainder" in v) or (v and "panics" in v):
            out.append("selfv=" + v)
    elif pid == "C16":
        if bad("redbtx") and "weight" in orc["redbtx"]:
            out.append("redbtx=" + orc["redbtx"])
        v = bad("rb")
        if v and re.search(r"tx-weight", v):
            out.append("rb=" + v)
        # a valid transaction (the reference decoder accepts it) that is rejected has no weight reported at all
        if v and "rust-bitcoin-accepts" in v and op.startswith("visit tx n "):
            out.append("rb=" + v + " (valid transaction: no weight is reported)")
    elif pid == "C17":
        v = bad("rb")
        if v and re.search(r"iterator|into_iter", v):
            out.append("rb=" + v)
        if bad("itad"):
            out.append("itad=" + orc["itad"])
        # the property itself, on the implementation's own line: the iterator of a parsed output list yields the
        # outputs its visitor was shown, the hints count down to 0, and the end is final
        if op_core is not None and op.startswith("visit txouts n ") and op_core.startswith("visit r=ok"):
            pv = parse_visit(op_core)
            m = re.search(r"iter=\[(.*)\],hints=\[(.*?)\],(.*)$", pv["obj"] or "") if pv else None
            if m:
                outs = [e[e.index(";") + 1:-1] for e in pv["ev"].split("|") if e.startswith("out(")]
                if m.group(1) != ";".join("(" + o + ")" for o in outs):
                    out.append("iterator-items-differ-from-the-outputs-shown-to-the-visitor")
                elif m.group(2) != ",".join(str(k) for k in range(len(outs), -1, -1)):
                    out.append("iterator-size-hints-do-not-count-down:" + m.group(2)[:60])
                elif m.group(3) != "after=0:none/0":
                    out.append("iterator-not-finished-after-its-end:" + m.group(3)[:40])
            elif pv:
                out.append("iterator-panics-or-does-not-end")
    elif pid == "C18":
        if op.startswith("num") and bad("ref"):
            out.append("ref=FAIL")
        if op.startswith("wrap ") and op_core is not None:
            # wrapping then unwrapping (by reference and by value) returns the value; the view is its little-endian bytes
            t = op.split()
            w = {"u8": 1, "u16": 2, "u32": 4, "i32": 4, "u64": 8}.get(t[1])
            try:
                n = int(t[2])
            except (ValueError, IndexError):
                n = None
            if w and n is not None and op_core.startswith("wrap"):
                d = kv(op_core)
                if d.get("back") != str(n):
                    out.append(f"wrap-then-unwrap-of-{n}-gives-{d.get('back', op_core[:40])}")
                elif d.get("asref") != (n % (1 << (8 * w))).to_bytes(w, "little").hex():
                    out.append(f"view-of-{n}-is-{d.get('asref')}")
    elif pid == "C19":
        v = bad("rb")
        if v and re.search(r"conversion|as_bitcoin_script", v):
            out.append("rb=" + v)
        if bad("find"):
            out.append("find=" + orc["find"])
    elif pid == "C20":
        for k in ("redb", "cmp"):
            if bad(k):
                out.append(f"{k}=" + orc[k])
    elif pid in ("C06", "C11", "C12", "C13"):
        if pid == "C06" and bad("gv"):
            out.append("gv=" + orc["gv"])
        v = bad("clog")
        if v:
            tags = [t for t in v[5:].split(",") if t.startswith(pid)]
            if tags:
                out.append("clog=" + ",".join(tags))
    return out


# ----------------------------------------------------------------------------- K-bfs (cache, model-driven)
def kbfs(cap, max_empty, max_depth, budget):
    """breadth-first exploration of every reachable *model* layout of a cache of capacity `cap` (zero-length entries
    bounded by `max_empty`); returns the list of histories (each: list of ops) covering every edge once"""
    # a history is a tuple of (key, len); state identity = model layout string after the history
    frontier = [()]
    seen = {}
    edges = []
    depth = 0

    def ops_of(hist):
        ops = [f"cnew {cap}"]
        for i, (k, l) in enumerate(hist):
            ops.append(f"cins {k} {gen.hx(gen.cache_value(i + 1, l))}")
        return ops

    while frontier and depth < max_depth and len(edges) < budget:
        cand = []
        for h in frontier:
            used = sorted({k for k, _ in h})
            fresh = (max(used) + 1) if used else 0
            keys = [fresh] + used[-3:]
            for k in keys:
                for l in range(0, cap + 2):
                    cand.append(h + ((k, l),))
        # run all candidates through the model in one go
        ops = []
        idx = []
        for c in cand:
            o = ops_of(c)
            idx.append((len(ops), len(o)))
            ops.extend(o)
        r = subprocess.run([BSMODEL], input="\n".join(ops) + "\n", capture_output=True, text=True)
        lines = r.stdout.splitlines()
        nxt = []
        for c, (s, n) in zip(cand, idx):
            last = lines[s + n - 1]
            d = kv(last)
            st = d.get("st", "?")
            rr = d.get("r", "?")
            edges.append(c)
            if not rr.startswith("ok"):
                continue
            # bound the number of zero-length live entries
            ranges = st[st.find("[") + 1:-1].split(";") if "[" in st else []
            empties = sum(1 for x in ranges if x and x.split("-")[0] == x.split("-")[1])
            if empties > max_empty:
                continue
            if st not in seen:
                seen[st] = c
                nxt.append(c)
        frontier = nxt
        depth += 1
    complete = not frontier
    return edges, len(seen), complete, ops_of


def fam_kbfs(tier):
    caps = range(0, 5) if tier == "quick" else range(0, 7)
    ops = []
    info = []
    for cap in caps:
        edges, nstates, complete, ops_of = kbfs(cap, 2, 9 if tier == "quick" else 11, 40000 if tier == "quick" else 400000)
        for e in edges:
            o = ops_of(e)
            keys = sorted({k for k, _ in e})
            ops.extend(o)
            ops.extend(f"cget {k}" for k in keys)
        info.append({"cap": cap, "model_states": nstates, "edges": len(edges), "exploration_complete": complete})
    return ops, info
