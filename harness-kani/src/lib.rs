//! Model validation by bounded model checking (supports the correspondence, replaces no theorem):
//! for ALL byte strings up to 10 bytes and ALL counters below 2^62, the real `scan_len` / `parse_len` / `read_*`
//! behave like a Rust transliteration of the Lean L1 definitions `scanLen`, `scanWide`, `parseLen`, `Num.read`
//! (lean/BS/Impl/Num.lean). `scan_len` never looks at more than 9 bytes, so the bound is not a restriction for it.
#![allow(deprecated)]
use bitcoin_slices::{bsl, Error};

/// `leN` of lean/BS/Impl/Basic.lean
fn le_n(b: &[u8]) -> u64 {
    let mut n: u64 = 0;
    let mut i = b.len();
    while i > 0 {
        i -= 1;
        n = (n << 8) | b[i] as u64;
    }
    n
}

#[derive(PartialEq, Eq, Debug, Clone, Copy)]
pub enum R {
    Ok(u64),
    Err(u8), // 0 = MoreBytesNeeded, 1 = NonMinimalVarInt
    Panic,
}

/// `scanWide s consumed w min` — result and counter afterwards
fn scan_wide(s: &[u8], consumed: usize, w: usize, min: u64) -> (R, usize) {
    // s.get?(1, 1 + w)
    if !(1 + w <= s.len()) {
        return (R::Err(0), consumed);
    }
    let p = &s[1..1 + w];
    let n = le_n(p);
    if n >= min {
        // addU consumed (1 + w)
        match consumed.checked_add(1 + w) {
            Some(c) => (R::Ok(n), c),
            None => (R::Panic, consumed),
        }
    } else {
        (R::Err(1), consumed)
    }
}

/// `scanLen s consumed`
pub fn model_scan_len(s: &[u8], consumed: usize) -> (R, usize) {
    match s.first() {
        None => (R::Err(0), consumed),
        Some(&x) => {
            if x == 0xFF {
                scan_wide(s, consumed, 8, 0x1_0000_0000)
            } else if x == 0xFE {
                scan_wide(s, consumed, 4, 0x1_0000)
            } else if x == 0xFD {
                scan_wide(s, consumed, 2, 0xFD)
            } else {
                match consumed.checked_add(1) {
                    Some(c) => (R::Ok(x as u64), c),
                    None => (R::Panic, consumed),
                }
            }
        }
    }
}

fn classify(e: &Error) -> u8 {
    match e {
        Error::MoreBytesNeeded => 0,
        Error::NonMinimalVarInt => 1,
        _ => 9,
    }
}

#[cfg(kani)]
mod proofs {
    use super::*;

    #[kani::proof]
    #[kani::unwind(11)]
    fn scan_len_is_the_model() {
        let bytes: [u8; 10] = kani::any();
        let len: usize = kani::any();
        kani::assume(len <= 10);
        let s = &bytes[..len];
        let c0: usize = kani::any();
        kani::assume(c0 < (1usize << 62));
        let mut c = c0;
        let r = bsl::scan_len(s, &mut c);
        let (mr, mc) = model_scan_len(s, c0);
        match r {
            Ok(n) => assert!(mr == R::Ok(n)),
            Err(e) => assert!(mr == R::Err(classify(&e))),
        }
        assert!(c == mc);
    }

    /// `Num.read w` / `Num.parse w` / `to_len` of lean/BS/Impl/Num.lean against `read_uN`, `UN::parse`, `UN::to_len`
    #[kani::proof]
    #[kani::unwind(11)]
    fn fixed_width_codecs_are_the_model() {
        use bitcoin_slices::number::*;
        use bitcoin_slices::Parse;
        let bytes: [u8; 10] = kani::any();
        let len: usize = kani::any();
        kani::assume(len <= 10);
        let s = &bytes[..len];
        macro_rules! chk {
            ($w:expr, $read:path, $T:ty, $prim:ty) => {{
                let want: Option<u64> = if s.len() >= $w { Some(le_n(&s[..$w])) } else { None };
                match ($read(s), want) {
                    (Ok(v), Some(n)) => assert!(v as $prim as u64 == n as $prim as u64),
                    (Err(Error::MoreBytesNeeded), None) => {}
                    _ => assert!(false),
                }
                match (<$T>::parse(s), want) {
                    (Ok(pr), Some(n)) => {
                        assert!(pr.remaining().len() == s.len() - $w);
                        let v: $prim = pr.parsed().into();
                        assert!(v as u64 == n as $prim as u64);
                        assert!(pr.parsed().as_ref() == &s[..$w]);
                    }
                    (Err(Error::MoreBytesNeeded), None) => {}
                    _ => assert!(false),
                }
            }};
        }
        chk!(1, read_u8, U8, u8);
        chk!(2, read_u16, U16, u16);
        chk!(4, read_u32, U32, u32);
        chk!(8, read_u64, U64, u64);
        // i32: two's complement of the same 32 bits
        if s.len() >= 4 {
            assert!(read_i32(s) == Ok(le_n(&s[..4]) as u32 as i32));
        } else {
            assert!(read_i32(s) == Err(Error::MoreBytesNeeded));
        }
        // to_len: ok exactly when the width is minimal for the value (Num.toLen)
        let n: u64 = kani::any();
        match U64::from(n).to_len() {
            Ok(l) => assert!(n > 0xFFFF_FFFF && l.n() == n && l.consumed() == 9),
            Err(e) => assert!(n <= 0xFFFF_FFFF && e == Error::NonMinimalVarInt),
        }
        let m = n as u32;
        match U32::from(m).to_len() {
            Ok(l) => assert!(m > 0xFFFF && l.n() == m as u64 && l.consumed() == 5),
            Err(e) => assert!(m <= 0xFFFF && e == Error::NonMinimalVarInt),
        }
        let k = n as u16;
        match U16::from(k).to_len() {
            Ok(l) => assert!(k >= 0xFD && l.n() == k as u64 && l.consumed() == 3),
            Err(e) => assert!(k < 0xFD && e == Error::NonMinimalVarInt),
        }
    }

    #[kani::proof]
    #[kani::unwind(11)]
    fn parse_len_agrees_with_scan_len() {
        let bytes: [u8; 10] = kani::any();
        let len: usize = kani::any();
        kani::assume(len <= 10);
        let s = &bytes[..len];
        let mut c = 0usize;
        let r = bsl::scan_len(s, &mut c);
        let p = bsl::parse_len(s);
        match (r, p) {
            (Ok(n), Ok(l)) => {
                assert!(l.n() == n && l.consumed() == c);
                // slice_len saturates, never panics
                let sl = l.slice_len();
                assert!(sl == (c as u64).saturating_add(n) as usize);
            }
            (Err(a), Err(b)) => assert!(classify(&a) == classify(&b)),
            _ => assert!(false),
        }
    }
}
